// symrun: development driver — explore one harness function and print the report.
package main

import (
	"encoding/json"
	"flag"
	"fmt"
	"os"
	"sort"
	"strconv"
	"strings"
	"time"

	"verif/engine/symgo"
)

func main() {
	repo := flag.String("repo", "/repo", "module root")
	harness := flag.String("harness", "/verif/harness", "harness overlay root")
	pkg := flag.String("pkg", "", "import path of the harness package")
	fn := flag.String("fn", "", "harness function")
	workers := flag.Int("workers", 16, "")
	solver := flag.String("solver", "z3", "")
	maxPaths := flag.Int("max-paths", 100000, "")
	trace := flag.Bool("trace", false, "")
	verbose := flag.Bool("v", false, "")
	profile := flag.Bool("profile", false, "")
	noIfConv := flag.Bool("no-ifconv", false, "")
	flag.Parse()
	ov, err := symgo.OverlayFromDir(*harness, *repo, false)
	if err != nil {
		fmt.Println(err)
		os.Exit(2)
	}
	prog, err := symgo.Load(symgo.LoadOptions{Dir: *repo, Patterns: []string{"./..."}, Overlay: ov, Tags: []string{"verif"}})
	if err != nil {
		fmt.Println("load:", err)
		os.Exit(2)
	}
	fmt.Printf("load %v build %v\n", prog.LoadTime, prog.BuildTime)
	f := prog.FindFunc(*pkg, *fn)
	if f == nil {
		fmt.Println("no such function")
		os.Exit(2)
	}
	cfg := symgo.DefaultConfig()
	for _, a := range flag.Args() {
		if i := strings.IndexByte(a, '='); i > 0 {
			v, _ := strconv.ParseInt(a[i+1:], 10, 64)
			cfg.Params[a[:i]] = v
		}
	}
	cfg.NoIfConv = *noIfConv
	if *profile {
		cfg.Profile = map[string]int{}
		*workers = 1
		*maxPaths = 1
	}
	rep := prog.Explore(symgo.Job{Fn: f, Cfg: cfg, Workers: *workers, Solver: *solver, MaxPaths: *maxPaths, SampleMax: 3, Trace: *trace, Deadline: time.Now().Add(10 * time.Minute)})
	fmt.Printf("paths=%d kinds=%v asserts=%d(sym %d) decisions=%d steps=%d wall=%v truncated=%v\n", rep.Paths, rep.ByKind, rep.Asserts, rep.AssertsSym, rep.Decisions, rep.Steps, rep.Wall, rep.Truncated)
	fmt.Printf("solver: %+v ifconv=%d\n", rep.Solver, rep.IfConv)
	var rs []string
	for k := range rep.Reached {
		rs = append(rs, k)
	}
	sort.Strings(rs)
	fmt.Println("reached:", rs)
	for _, v := range rep.Violations {
		b, _ := json.Marshal(v)
		fmt.Println("VIOL", string(b))
	}
	for _, v := range rep.Problems {
		b, _ := json.Marshal(v)
		fmt.Println("PROBLEM", string(b))
	}
	if *profile {
		type kv struct {
			k string
			v int
		}
		var l []kv
		for k, v := range cfg.Profile {
			l = append(l, kv{k, v})
		}
		sort.Slice(l, func(i, j int) bool { return l[i].v > l[j].v })
		for i := 0; i < 25 && i < len(l); i++ {
			fmt.Println(l[i].v, l[i].k)
		}
	}
	if *verbose {
		for _, v := range rep.Samples {
			b, _ := json.Marshal(v)
			fmt.Println("SAMPLE", string(b))
		}
		fmt.Println("forks:", rep.Forks)
		fmt.Println("funcs:", rep.Funcs)
		fmt.Println("stubs:", rep.Stubs)
		fmt.Println("notes:", rep.Notes)
	}
}
