// tsrun: development driver for Engine B scenarios.
package main

import (
	"flag"
	"fmt"
	"os"
	"strconv"
	"strings"

	"verif/engine/symgo"
)

func main() {
	repo := flag.String("repo", "/repo", "")
	harness := flag.String("harness", "/verif/harness", "")
	pkg := flag.String("pkg", "", "")
	fn := flag.String("fn", "", "")
	K := flag.Int("k", 16, "")
	pool := flag.Int("pool", 2, "")
	solver := flag.String("solver", "z3-new", "")
	desc := flag.Bool("desc", false, "")
	par := flag.Bool("par", false, "")
	dump := flag.String("dump", "", "")
	nopor := flag.Bool("nopor", false, "")
	flag.Parse()
	ov, err := symgo.OverlayFromDir(*harness, *repo, false)
	if err != nil {
		fmt.Println(err)
		os.Exit(2)
	}
	prog, err := symgo.Load(symgo.LoadOptions{Dir: *repo, Patterns: []string{"./..."}, Overlay: ov, Tags: []string{"verif"}})
	if err != nil {
		fmt.Println("load:", err)
		os.Exit(2)
	}
	f := prog.FindFunc(*pkg, *fn)
	if f == nil {
		fmt.Println("no such function")
		os.Exit(2)
	}
	cfg := symgo.DefaultConfig()
	for _, a := range flag.Args() {
		if i := strings.IndexByte(a, '='); i > 0 {
			v, _ := strconv.ParseInt(a[i+1:], 10, 64)
			cfg.Params[a[:i]] = v
		}
	}
	ts, err := prog.BuildTS(f, cfg, *solver, 60000)
	if err != nil {
		fmt.Println("build:", err)
		os.Exit(1)
	}
	fmt.Printf("relation: %d thread types, %d cells\n", len(ts.Types), len(ts.Cells))
	if *desc {
		for _, l := range ts.Describe() {
			fmt.Println(l)
		}
	}
	res, err := ts.CheckBMC(symgo.BMCOptions{K: *K, Pool: *pool, Solver: *solver, TimeoutMS: 1200000, Parallel: *par, DumpTo: *dump, NoPOR: *nopor})
	if err != nil {
		fmt.Println("bmc:", err)
		os.Exit(1)
	}
	fmt.Printf("K=%d violated=%q kind=%s unknown=%v notQuiescent=%v poolOverflow=%v queries=%d solver=%.1fs terms=%d\n", res.K, res.Violated, res.Kind, res.Unknown, res.NotQuiescent, res.PoolOverflow, res.Queries, res.SolverS, res.Terms)
	if res.Violated != "" {
		fmt.Println("threads:", res.Threads)
		fmt.Println("schedule:", res.Schedule)
	}
}
