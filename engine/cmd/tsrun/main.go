// tsrun: development driver for Engine B scenarios.
package main

import (
	"time"
	"flag"
	"fmt"
	"os"
	"strconv"
	"strings"

	"verif/engine/symgo"
)

func main() {
	repo := flag.String("repo", "/repo", "")
	harness := flag.String("harness", "/verif/harness", "")
	pkg := flag.String("pkg", "", "")
	fn := flag.String("fn", "", "")
	K := flag.Int("k", 16, "")
	pool := flag.Int("pool", 2, "")
	solver := flag.String("solver", "z3-new", "")
	desc := flag.Bool("desc", false, "")
	par := flag.Bool("par", false, "")
	dump := flag.String("dump", "", "")
	nopor := flag.Bool("nopor", false, "")
	flag.Parse()
	ov, err := symgo.OverlayFromDir(*harness, *repo, false)
	if err != nil {
		fmt.Println(err)
		os.Exit(2)
	}
	prog, err := symgo.Load(symgo.LoadOptions{Dir: *repo, Patterns: []string{"./..."}, Overlay: ov, Tags: []string{"verif"}})
	if err != nil {
		fmt.Println("load:", err)
		os.Exit(2)
	}
	f := prog.FindFunc(*pkg, *fn)
	if f == nil {
		fmt.Println("no such function")
		os.Exit(2)
	}
	cfg := symgo.DefaultConfig()
	for _, a := range flag.Args() {
		if i := strings.IndexByte(a, '='); i > 0 {
			v, _ := strconv.ParseInt(a[i+1:], 10, 64)
			cfg.Params[a[:i]] = v
		}
	}
	t0 := time.Now()
	ts, err := prog.BuildTS(f, cfg, *solver, 60000)
	fmt.Println("build relation:", time.Since(t0))
	if ts != nil {
		fmt.Printf("build stats: %+v\n", ts.Stats)
	}
	if err != nil {
		fmt.Println("build:", err)
		os.Exit(1)
	}
	fmt.Printf("relation: %d thread types, %d cells\n", len(ts.Types), len(ts.Cells))
	if *desc {
		for _, l := range ts.Describe() {
			fmt.Println(l)
		}
		for _, p := range ts.Safety {
			fmt.Println("safety", p.Name, p.Term.String())
		}
		for _, p := range ts.Final {
			fmt.Println("final", p.Name, p.Term.String())
		}
		for _, c := range ts.CellDescs() {
			fmt.Println("cell", c)
		}
	}
	res, err := ts.CheckBMC(symgo.BMCOptions{K: *K, Pool: *pool, Solver: *solver, TimeoutMS: 1200000, Parallel: *par, DumpTo: *dump, NoPOR: *nopor, NoBlocked: cfg.Params["noblocked"] == 1, ProgressB: int(cfg.Params["progress"])})
	if err != nil {
		fmt.Println("bmc:", err)
		os.Exit(1)
	}
	fmt.Printf("K=%d violated=%q kind=%s unknown=%v notQuiescent=%v poolOverflow=%v range=%v widened=%v queries=%d solver=%.1fs terms=%d\n", res.K, res.Violated, res.Kind, res.Unknown, res.NotQuiescent, res.PoolOverflow, res.RangeExceeded, res.Widened, res.Queries, res.SolverS, res.Terms)
	if res.Violated != "" {
		fmt.Println("threads:", res.Threads)
		fmt.Println("schedule:", res.Schedule)
		fmt.Println("symInit:", res.SymInit)
		rr, err := prog.ReplayTS(f, cfg, *pool, res.Schedule, res.SymInit)
		if err != nil {
			fmt.Println("replay error:", err)
		} else {
			for _, st := range rr.Steps {
				fmt.Println("  ", st)
			}
			fmt.Printf("replay: violated=%q kind=%s fault=%s mismatch=%q runnable=%d\n", rr.Violated, rr.Kind, rr.Fault, rr.Mismatch, rr.StillRunnable)
			fmt.Println("model final cells:", res.FinalCells)
			fmt.Println("impl  final cells:", rr.FinalCells)
		}
	}
}
