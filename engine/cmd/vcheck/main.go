// vcheck decides one property: it rebuilds SSA from /repo's current working
// tree (plus the overlay harnesses), runs the property's harness jobs in the
// symbolic engines, replays every counterexample natively against the compiled
// code, applies the known-findings file and writes the evidence file.
package main

import (
	"encoding/json"
	"flag"
	"fmt"
	"os"
	"os/exec"
	"path/filepath"
	"sort"
	"strconv"
	"strings"
	"time"

	"golang.org/x/tools/go/ssa"

	"verif/engine/symgo"
)

type JobSpec struct {
	Name      string           `json:"name"`
	Engine    string           `json:"engine"` // "symgo" (default) or "tsgen"
	Pkg       string           `json:"pkg"`    // package dir relative to module root
	Fn        string           `json:"fn"`
	Quick     map[string]int64 `json:"quick"`
	Thorough  map[string]int64 `json:"thorough"`
	Foreach   *Foreach         `json:"foreach,omitempty"`
	MustReach []string         `json:"must_reach"`
	// budgets
	MaxPathsQuick    int `json:"max_paths_quick"`
	MaxPathsThorough int `json:"max_paths_thorough"`
	TimeoutQuickS    int `json:"timeout_quick_s"`
	TimeoutThoroughS int `json:"timeout_thorough_s"`
	MaxSteps         int `json:"max_steps"`
	MaxDepth         int `json:"max_depth"`
	AllocBudget      int64 `json:"alloc_budget"`
	QueryTimeoutMS   int `json:"query_timeout_ms"`
	ThoroughOnly     bool `json:"thorough_only"`
	Informational    bool `json:"informational"` // violations are reported as notes only
	Confirm          string `json:"confirm,omitempty"` // "interpreter": counterexamples are confirmed by a solver-free concrete re-execution in the interpreter (schedules / redirected environment cannot be forced natively)
	Scenario         json.RawMessage `json:"scenario,omitempty"` // tsgen
}

// Foreach expands a job into one instance per value of a parameter.
type Foreach struct {
	Param  string   `json:"param"`
	From   int64    `json:"from"`
	To     int64    `json:"to"`               // inclusive
	Labels []string `json:"labels,omitempty"` // optional names per value
}

type Spec struct {
	Property    string    `json:"property"`
	Level       string    `json:"level"`
	Explanation string    `json:"explanation"`
	Assumptions []string  `json:"assumptions"`
	Trusted     []string  `json:"trusted_base"`
	Jobs        []JobSpec `json:"jobs"`
}

type KnownFinding struct {
	Property  string `json:"property"`
	Job       string `json:"job"`       // job instance name (exact)
	Assertion string `json:"assertion"` // assertion name (exact) or outcome kind (no-panic, no-fatal, no-deadlock)
	What      string `json:"what"`
	Status    string `json:"status"` // "open" or "fixed"
	Commit    string `json:"commit,omitempty"`
}

type KnownFile struct {
	Findings []KnownFinding `json:"findings"`
}

type jobResult struct {
	Name        string            `json:"name"`
	Harness     string            `json:"harness"`
	Engine      string            `json:"engine"`
	Params      map[string]int64  `json:"params"`
	Paths       int               `json:"paths"`
	ByKind      map[string]int    `json:"paths_by_outcome"`
	Asserts     int               `json:"assertions_discharged"`
	AssertsSym  int               `json:"assertions_with_symbolic_condition"`
	Nontrivial  int               `json:"ok_paths_nontrivial"`
	Decisions   int               `json:"decisions"`
	Steps       int               `json:"ssa_instructions_executed"`
	Queries     int               `json:"solver_queries"`
	Sat         int               `json:"solver_sat"`
	Unsat       int               `json:"solver_unsat"`
	Unknown     int               `json:"solver_unknown"`
	SolverS     float64           `json:"solver_s"`
	WallS       float64           `json:"wall_s"`
	Reached     []string          `json:"reached"`
	Missing     []string          `json:"must_reach_missing,omitempty"`
	Truncated   bool              `json:"truncated"`
	Problems    []symgo.PathResult `json:"problems,omitempty"`
	Funcs       map[string]int    `json:"functions_encoded"`
	Stubs       []string          `json:"stubs_used"`
	Confirmed   []confirmedViolation `json:"confirmed_violations,omitempty"`
	Unconfirmed []string          `json:"unreplayed_models,omitempty"`
	Replays     int               `json:"native_replays"`
	Extra       map[string]any    `json:"extra,omitempty"`
}

type confirmedViolation struct {
	Job       string `json:"job"`
	Assertion string `json:"assertion"`
	Replay    string `json:"replay"`
	Native    string `json:"native_outcome"`
	Known     bool   `json:"known"`
	Info      bool   `json:"informational,omitempty"`
}

var xcheckGlobal []map[string]any

var (
	repoRoot    = "/repo"
	verifRoot   = "/verif"
	outRoot     = "" // evidence/ and replays/ are written under this directory (default: verifRoot; $VERIF_OUT for sweeps over scratch copies)
	goBin       = "/opt/veriftools/go1.26.8/bin"
)

func goEnv() []string {
	env := os.Environ()
	env = append(env, "PATH="+goBin+":"+os.Getenv("PATH"), "GOTOOLCHAIN=local", "GOFLAGS=-mod=mod", "GOPROXY=off", "GONOSUMDB=*", "GONOSUMCHECK=1", "GOFLAGS=-mod=mod")
	return env
}

func main() {
	tier := flag.String("tier", "", "quick|thorough (default: $VERIF_TIER or quick)")
	replay := flag.String("replay", "", "replay file to run natively")
	only := flag.String("job", "", "run only jobs whose name contains this")
	workers := flag.Int("workers", 16, "")
	solver := flag.String("solver", "", "solver backend (default: z3-new if on PATH, else z3)")
	verbose := flag.Bool("v", false, "")
	// the property id may come before or after the flags
	prop := ""
	args := os.Args[1:]
	if len(args) > 0 && !strings.HasPrefix(args[0], "-") {
		prop = args[0]
		args = args[1:]
	}
	flag.CommandLine.Parse(args)
	if prop == "" && flag.NArg() > 0 {
		prop = flag.Arg(0)
	}
	if prop == "" {
		fmt.Println("usage: vcheck <property-id> [--tier quick|thorough] [--replay file]")
		os.Exit(2)
	}
	if *tier == "" {
		*tier = os.Getenv("VERIF_TIER")
	}
	if *tier != "thorough" {
		*tier = "quick"
	}
	seed := 0
	if s := os.Getenv("VERIF_SEED"); s != "" {
		seed, _ = strconv.Atoi(s)
	}
	if v := os.Getenv("VERIF_REPO"); v != "" {
		repoRoot = v
	}
	if v := os.Getenv("VERIF_ROOT"); v != "" {
		verifRoot = v
	}
	outRoot = verifRoot
	if v := os.Getenv("VERIF_OUT"); v != "" {
		outRoot = v
	}
	os.Setenv("PATH", goBin+":"+os.Getenv("PATH"))
	os.Setenv("GOTOOLCHAIN", "local")
	os.Setenv("GOFLAGS", "-mod=mod")
	os.Setenv("GOPROXY", "off")

	if *solver == "" {
		*solver = "z3"
		if _, err := exec.LookPath("z3-new"); err == nil {
			*solver = "z3-new"
		}
	}
	if *replay != "" {
		os.Exit(runReplayCmd(prop, *replay))
	}
	os.Exit(runCheck(prop, *tier, seed, *only, *workers, *solver, *verbose))
}

func loadSpec(prop string) (*Spec, error) {
	b, err := os.ReadFile(filepath.Join(verifRoot, "specs", prop+".json"))
	if err != nil {
		return nil, err
	}
	var s Spec
	if err := json.Unmarshal(b, &s); err != nil {
		return nil, fmt.Errorf("specs/%s.json: %v", prop, err)
	}
	return &s, nil
}

func loadKnown() KnownFile {
	var k KnownFile
	b, err := os.ReadFile(filepath.Join(verifRoot, "known_findings.json"))
	if err == nil {
		json.Unmarshal(b, &k)
	}
	return k
}

type instance struct {
	spec   JobSpec
	name   string
	params map[string]int64
}

func expand(js JobSpec, tier string) []instance {
	base := map[string]int64{}
	for k, v := range js.Quick {
		base[k] = v
	}
	if tier == "thorough" {
		for k, v := range js.Thorough {
			base[k] = v
		}
	}
	if js.Foreach == nil {
		return []instance{{js, js.Name, base}}
	}
	var out []instance
	for v := js.Foreach.From; v <= js.Foreach.To; v++ {
		p := map[string]int64{}
		for k, x := range base {
			p[k] = x
		}
		p[js.Foreach.Param] = v
		label := strconv.FormatInt(v, 10)
		if i := int(v - js.Foreach.From); i < len(js.Foreach.Labels) {
			label = js.Foreach.Labels[i]
		}
		out = append(out, instance{js, js.Name + "[" + label + "]", p})
	}
	return out
}

func runCheck(prop, tier string, seed int, only string, workers int, solver string, verbose bool) int {
	start := time.Now()
	spec, err := loadSpec(prop)
	if err != nil {
		fmt.Println("INCONCLUSIVE property=" + prop + " reason=no spec: " + err.Error())
		return 0
	}
	known := loadKnown()
	evPath := filepath.Join(outRoot, "evidence", prop+".json")
	os.MkdirAll(filepath.Dir(evPath), 0o755)

	var results []*jobResult
	var inconclusive []string
	exit := 0

	needSymgo := false
	for _, j := range spec.Jobs {
		if j.Engine == "" || j.Engine == "symgo" {
			needSymgo = true
		}
	}
	var prog *symgo.Program
	var loadErr error
	ov, err := symgo.OverlayFromDir(filepath.Join(verifRoot, "harness"), repoRoot, false)
	if err != nil {
		loadErr = err
	} else if needSymgo || true {
		prog, loadErr = symgo.Load(symgo.LoadOptions{Dir: repoRoot, Patterns: []string{"./..."}, Overlay: ov, Tags: []string{"verif"}})
	}
	if loadErr != nil {
		msg := "cannot load/encode /repo with the harness overlay: " + truncate(loadErr.Error(), 600)
		fmt.Println("INCONCLUSIVE property=" + prop + " reason=" + msg)
		writeEvidence(evPath, prop, tier, seed, spec, nil, []string{msg}, time.Since(start), 0, nil)
		return 0
	}
	fmt.Printf("loaded %s in %.1fs, SSA built in %.1fs\n", prog.TargetMod, prog.LoadTime.Seconds(), prog.BuildTime.Seconds())

	replayer := &replayer{prop: prop}
	defer replayer.cleanup()

	// expand all job instances; tsgen jobs (single-threaded solver runs) are
	// executed concurrently, symgo jobs (16 workers each) one after the other
	type pending struct {
		inst instance
		js   JobSpec
		jr   *jobResult
		done chan struct{}
	}
	var all []*pending
	for _, js := range spec.Jobs {
		if js.ThoroughOnly && tier != "thorough" {
			continue
		}
		for _, inst := range expand(js, tier) {
			if only != "" && !strings.Contains(inst.name, only) {
				continue
			}
			all = append(all, &pending{inst: inst, js: js, done: make(chan struct{})})
		}
	}
	sem := make(chan struct{}, maxInt(workers/2, 1))
	for _, pd := range all {
		if pd.js.Engine == "tsgen" {
			go func(pd *pending) {
				sem <- struct{}{}
				pd.jr = runTsgenJob(prog, pd.inst, tier, workers, solver, replayer, verbose)
				<-sem
				close(pd.done)
			}(pd)
		}
	}
	for _, pd := range all {
		js, inst := pd.js, pd.inst
		{
			var jr *jobResult
			switch js.Engine {
			case "", "symgo":
				jr = runSymgoJob(prog, inst, tier, workers, solver, replayer, verbose)
			case "tsgen":
				<-pd.done
				jr = pd.jr
			default:
				jr = &jobResult{Name: inst.name, Engine: js.Engine}
				jr.Problems = append(jr.Problems, symgo.PathResult{Kind: "engine-fault", Msg: "unknown engine"})
			}
			results = append(results, jr)
			fmt.Printf("job %-40s paths=%d %v asserts=%d queries=%d(sat %d unsat %d unk %d) solver=%.1fs wall=%.1fs\n", jr.Name, jr.Paths, jr.ByKind, jr.Asserts, jr.Queries, jr.Sat, jr.Unsat, jr.Unknown, jr.SolverS, jr.WallS)
			for _, p := range jr.Problems {
				m := fmt.Sprintf("job %s: %s: %s", jr.Name, p.Kind, truncate(p.Msg, 300))
				inconclusive = append(inconclusive, m)
			}
			if jr.Truncated {
				inconclusive = append(inconclusive, fmt.Sprintf("job %s: exploration truncated by path/time budget (bound not completed)", jr.Name))
			}
			for _, l := range jr.Missing {
				inconclusive = append(inconclusive, fmt.Sprintf("job %s: reachability witness %q not reached (vacuity guard)", jr.Name, l))
			}
			for _, u := range jr.Unconfirmed {
				inconclusive = append(inconclusive, fmt.Sprintf("job %s: solver model did not reproduce (%s)", jr.Name, u))
			}
			for i := range jr.Confirmed {
				cv := &jr.Confirmed[i]
				if js.Informational {
					cv.Info = true
					fmt.Printf("INFO property=%s job=%s assertion=%s (informational query) replay=%s\n", prop, cv.Job, cv.Assertion, cv.Replay)
					continue
				}
				for _, k := range known.Findings {
					if k.Property == prop && k.Status != "fixed" && k.Job == cv.Job && k.Assertion == cv.Assertion {
						cv.Known = true
						fmt.Printf("KNOWN-FINDING: property=%s job=%s assertion=%s %s\n", prop, cv.Job, cv.Assertion, k.What)
						break
					}
				}
				if !cv.Known {
					fmt.Printf("VIOLATION property=%s replay=%s\n", prop, cv.Replay)
					fmt.Printf("  job=%s assertion=%s native=%s\n", cv.Job, cv.Assertion, cv.Native)
					exit = 1
				}
			}
		}
	}
	// second-solver cross-check (thorough tier, or VERIF_XCHECK=1): every job is
	// re-run at its quick bound with the primary solver and with an independent
	// back end (cvc5 for symgo jobs; z3 4.8.12 for the BMC queries, whose tactic
	// script cvc5 does not read); the two runs must agree on paths, outcomes and
	// discharged assertions. A disagreement makes the check inconclusive.
	var xcheck []map[string]any
	if (tier == "thorough" || os.Getenv("VERIF_XCHECK") == "1") && os.Getenv("VERIF_XCHECK") != "0" {
		for _, js := range spec.Jobs {
			if js.ThoroughOnly {
				continue
			}
			for _, inst := range expand(js, "quick") {
				if only != "" && !strings.Contains(inst.name, only) {
					continue
				}
				sig := func(jr *jobResult) string {
					var ks []string
					for k, v := range jr.ByKind {
						ks = append(ks, fmt.Sprintf("%s=%d", k, v))
					}
					sort.Strings(ks)
					var cs []string
					for _, c := range jr.Confirmed {
						cs = append(cs, c.Assertion)
					}
					sort.Strings(cs)
					return fmt.Sprintf("paths=%d %s asserts=%d unknown=%d truncated=%v violations=%v", jr.Paths, strings.Join(ks, ","), jr.Asserts, jr.Unknown, jr.Truncated, cs)
				}
				var a, b *jobResult
				second := "cvc5"
				if js.Engine == "tsgen" {
					second = "z3"
					a = runTsgenJob(prog, inst, "quick", workers, solver, replayer, false)
					b = runTsgenJob(prog, inst, "quick", workers, second, replayer, false)
				} else {
					a = runSymgoJob(prog, inst, "quick", workers, solver, replayer, false)
					b = runSymgoJob(prog, inst, "quick", workers, second, replayer, false)
				}
				agree := sig(a) == sig(b)
				xcheck = append(xcheck, map[string]any{"job": inst.name, "bound": "quick", "primary": solver, "secondary": second, "primary_result": sig(a), "secondary_result": sig(b), "agree": agree,
					"primary_solver_s": a.SolverS, "secondary_solver_s": b.SolverS})
				fmt.Printf("xcheck %-40s %s vs %s: agree=%v (%s)\n", inst.name, solver, second, agree, sig(b))
				if !agree {
					inconclusive = append(inconclusive, fmt.Sprintf("job %s: solvers disagree at the quick bound: %s: %s / %s: %s", inst.name, solver, sig(a), second, sig(b)))
				}
			}
		}
	}
	xcheckGlobal = xcheck
	for _, m := range inconclusive {
		fmt.Println("INCONCLUSIVE property=" + prop + " reason=" + m)
	}
	nviol := 0
	for _, r := range results {
		for _, c := range r.Confirmed {
			if !c.Known && !c.Info {
				nviol++
			}
		}
	}
	writeEvidence(evPath, prop, tier, seed, spec, results, inconclusive, time.Since(start), nviol, prog)
	if exit == 0 {
		fmt.Printf("property %s: no unlisted violation within the stated bounds (%d jobs, %.1fs)\n", prop, len(results), time.Since(start).Seconds())
	}
	return exit
}

func truncate(s string, n int) string {
	if len(s) > n {
		return s[:n] + "…"
	}
	return s
}

func runSymgoJob(prog *symgo.Program, inst instance, tier string, workers int, solver string, rp *replayer, verbose bool) *jobResult {
	js := inst.spec
	jr := &jobResult{Name: inst.name, Engine: "symgo", Params: inst.params, ByKind: map[string]int{}}
	pkgPath := prog.TargetMod
	if js.Pkg != "" && js.Pkg != "." {
		pkgPath += "/" + js.Pkg
	}
	fn := prog.FindFunc(pkgPath, js.Fn)
	if fn == nil {
		jr.Problems = append(jr.Problems, symgo.PathResult{Kind: "unsupported", Msg: "harness function " + pkgPath + "." + js.Fn + " not found"})
		return jr
	}
	jr.Harness = fn.String()
	cfg := symgo.DefaultConfig()
	for k, v := range inst.params {
		cfg.Params[k] = v
	}
	if js.MaxSteps > 0 {
		cfg.MaxSteps = js.MaxSteps
	}
	if js.MaxDepth > 0 {
		cfg.MaxDepth = js.MaxDepth
	}
	if js.AllocBudget > 0 {
		cfg.AllocBudget = js.AllocBudget
	}
	maxPaths, timeout := js.MaxPathsQuick, js.TimeoutQuickS
	if tier == "thorough" {
		maxPaths, timeout = js.MaxPathsThorough, js.TimeoutThoroughS
	}
	if maxPaths == 0 {
		maxPaths = 2_000_000
	}
	if timeout == 0 {
		timeout = 150
		if tier == "thorough" {
			timeout = 1800
		}
	}
	qt := js.QueryTimeoutMS
	if qt == 0 {
		qt = 20000
	}
	rep := prog.Explore(symgo.Job{Fn: fn, Cfg: cfg, Workers: workers, Solver: solver, TimeoutMS: qt, MaxPaths: maxPaths, SampleMax: 3, Deadline: time.Now().Add(time.Duration(timeout) * time.Second)})
	jr.Paths = rep.Paths
	jr.ByKind = rep.ByKind
	jr.Asserts = rep.Asserts
	jr.AssertsSym = rep.AssertsSym
	jr.Nontrivial = rep.NontrivialOK
	jr.Decisions = rep.Decisions
	jr.Steps = rep.Steps
	jr.Queries = rep.Solver.Queries
	jr.Sat = rep.Solver.Sat
	jr.Unsat = rep.Solver.Unsat
	jr.Unknown = rep.Solver.Unknown + rep.Solver.Errors
	jr.SolverS = float64(rep.Solver.SolverNS) / 1e9
	jr.WallS = rep.Wall.Seconds()
	jr.Truncated = rep.Truncated
	jr.Problems = rep.Problems
	jr.Funcs = rep.Funcs
	for k := range rep.Stubs {
		if !strings.Contains(k, ".vrt") && !strings.HasSuffix(k, ".init") {
			jr.Stubs = append(jr.Stubs, k)
		}
	}
	sort.Strings(jr.Stubs)
	for k := range rep.Reached {
		jr.Reached = append(jr.Reached, k)
	}
	sort.Strings(jr.Reached)
	for _, l := range js.MustReach {
		if !rep.Reached[l] {
			jr.Missing = append(jr.Missing, l)
		}
	}
	jr.Extra = map[string]any{"samples": rep.Samples, "notes": rep.Notes}
	if cfg.Params["preempt"] > 0 {
		jr.Extra["schedule_exploration"] = map[string]any{"preemption_bound": cfg.Params["preempt"], "paths_with_a_preemption": rep.PreemptedPaths, "max_preemptions_on_a_path": rep.MaxPreempts,
			"next_goroutine_choice_at_blocking_points": cfg.Params["nextchoice"] > 0,
			"rule": "every sync / sync/atomic call, channel operation, select, close and go statement is a schedule point; while the bound lasts the engine forks over continuing and switching to each runnable goroutine; at blocking points and goroutine ends the next goroutine is the first runnable one in creation order (FIFO) or, with nextchoice=1, every runnable one (fork)"}
	}

	// counterexamples: group by assertion, replay natively
	byAssert := map[string][]symgo.PathResult{}
	var order []string
	for _, v := range rep.Violations {
		a := v.Assertion
		if a == "" {
			a = "no-" + v.Kind
		}
		if _, ok := byAssert[a]; !ok {
			order = append(order, a)
		}
		byAssert[a] = append(byAssert[a], v)
	}
	for _, a := range order {
		confirmed := false
		var lastNative string
		tries := byAssert[a]
		if len(tries) > 3 {
			tries = tries[:3]
		}
		for i, v := range tries {
			if js.Confirm == "interpreter" {
				path, outcome, ok := rp.replayConcrete(prog, fn, cfg, js, inst, a, i, v)
				jr.Replays++
				lastNative = outcome
				if ok {
					name := a
					if strings.HasPrefix(outcome, "assert-failed name=") {
						name = strings.TrimPrefix(outcome, "assert-failed name=")
					}
					jr.Confirmed = append(jr.Confirmed, confirmedViolation{Job: inst.name, Assertion: name, Replay: path, Native: "solver-free concrete re-execution in the interpreter on the real SSA: " + outcome})
					confirmed = true
					break
				}
				continue
			}
			path, native, ok := rp.replay(js.Pkg, js.Fn, inst.name, a, i, v, inst.params)
			jr.Replays++
			lastNative = native
			if ok {
				name := a
				if strings.HasPrefix(native, "assert-failed name=") {
					name = strings.TrimPrefix(native, "assert-failed name=")
				}
				jr.Confirmed = append(jr.Confirmed, confirmedViolation{Job: inst.name, Assertion: name, Replay: path, Native: native})
				confirmed = true
				break
			}
		}
		if !confirmed {
			jr.Unconfirmed = append(jr.Unconfirmed, fmt.Sprintf("assertion %s: engine %s, native %s", a, truncate(byAssert[a][0].Msg, 200), truncate(lastNative, 200)))
		}
	}
	return jr
}

// ---------------------------------------------------------------------------
// native replay

type replayer struct {
	prop   string
	tmp    string
	bins   map[string]string // pkg dir -> test binary
	failed map[string]string
}

func (r *replayer) cleanup() {
	if r.tmp != "" {
		os.RemoveAll(r.tmp)
	}
}

type replayFile struct {
	Property  string               `json:"property"`
	Job       string               `json:"job"`
	Pkg       string               `json:"pkg"`
	Harness   string               `json:"harness"`
	Assertion string               `json:"assertion"`
	Engine    string               `json:"engine_outcome"`
	Inputs    []symgo.ReplayInput  `json:"inputs"`
	Params    map[string]int64     `json:"params"`
	Trail     string               `json:"trail,omitempty"`
	Schedule  []int                `json:"schedule,omitempty"`
	Choices   []int                `json:"choices,omitempty"`
	Confirm   string               `json:"confirm,omitempty"`
}

func (r *replayer) ensureBin(pkg string) (string, error) {
	if r.bins == nil {
		r.bins = map[string]string{}
		r.failed = map[string]string{}
	}
	if b, ok := r.bins[pkg]; ok {
		return b, nil
	}
	if e, ok := r.failed[pkg]; ok {
		return "", fmt.Errorf("%s", e)
	}
	if r.tmp == "" {
		t, err := os.MkdirTemp("", "vcheck-replay-")
		if err != nil {
			return "", err
		}
		r.tmp = t
	}
	ov, err := symgo.OverlayFromDir(filepath.Join(verifRoot, "harness"), repoRoot, true)
	if err != nil {
		return "", err
	}
	repl := map[string]string{}
	i := 0
	for virt, content := range ov {
		real := filepath.Join(r.tmp, fmt.Sprintf("ov%d_%s", i, filepath.Base(virt)))
		i++
		if err := os.WriteFile(real, content, 0o644); err != nil {
			return "", err
		}
		repl[virt] = real
	}
	ovb, _ := json.Marshal(map[string]any{"Replace": repl})
	ovPath := filepath.Join(r.tmp, "overlay.json")
	os.WriteFile(ovPath, ovb, 0o644)
	bin := filepath.Join(r.tmp, strings.ReplaceAll(pkg, "/", "_")+".test")
	target := "./" + pkg
	if pkg == "" || pkg == "." {
		target = "."
	}
	cmd := exec.Command("go", "test", "-tags", "verif", "-vet=off", "-overlay", ovPath, "-c", "-o", bin, target)
	cmd.Dir = repoRoot
	cmd.Env = goEnv()
	out, err := cmd.CombinedOutput()
	if err != nil {
		r.failed[pkg] = "native build of replay test failed: " + truncate(string(out), 800)
		return "", fmt.Errorf("%s", r.failed[pkg])
	}
	r.bins[pkg] = bin
	return bin, nil
}

func (r *replayer) replay(pkg, fn, job, assertion string, idx int, v symgo.PathResult, params map[string]int64) (path, native string, ok bool) {
	dir := filepath.Join(outRoot, "replays", r.prop)
	os.MkdirAll(dir, 0o755)
	safe := strings.NewReplacer("[", "_", "]", "", "/", "_", " ", "_", "*", "").Replace(job + "-" + assertion)
	path = filepath.Join(dir, fmt.Sprintf("%s-%d.json", safe, idx))
	rf := replayFile{Property: r.prop, Job: job, Pkg: pkg, Harness: fn, Assertion: assertion, Engine: v.Kind + ": " + v.Msg, Inputs: v.Inputs, Params: params, Trail: v.Trail}
	b, _ := json.MarshalIndent(rf, "", " ")
	os.WriteFile(path, b, 0o644)
	native, ok = r.runNative(pkg, fn, path, v.Kind, assertion)
	return
}

// replayConcrete confirms a counterexample by re-executing the harness in the
// interpreter with concrete inputs and the recorded engine choices (no solver).
func (r *replayer) replayConcrete(prog *symgo.Program, fn *ssa.Function, cfg symgo.Config, js JobSpec, inst instance, assertion string, idx int, v symgo.PathResult) (path, outcome string, ok bool) {
	dir := filepath.Join(outRoot, "replays", r.prop)
	os.MkdirAll(dir, 0o755)
	safe := strings.NewReplacer("[", "_", "]", "", "/", "_", " ", "_", "*", "").Replace(inst.name + "-" + assertion)
	path = filepath.Join(dir, fmt.Sprintf("%s-%d.json", safe, idx))
	rf := replayFile{Property: r.prop, Job: inst.name, Pkg: js.Pkg, Harness: js.Fn, Assertion: assertion, Engine: v.Kind + ": " + v.Msg, Inputs: v.Inputs, Params: inst.params, Trail: v.Trail, Choices: v.Choices, Confirm: "interpreter"}
	b, _ := json.MarshalIndent(rf, "", " ")
	os.WriteFile(path, b, 0o644)
	outcome, ok = concreteOutcome(prog, fn, cfg, v.Inputs, v.Choices, v.Kind, assertion)
	return
}

func concreteOutcome(prog *symgo.Program, fn *ssa.Function, cfg symgo.Config, inputs []symgo.ReplayInput, choices []int, kind, assertion string) (string, bool) {
	out := prog.ReplayConcrete(symgo.Job{Fn: fn, Cfg: cfg}, inputs, choices)
	switch out.Kind {
	case "violation":
		name := ""
		if out.Violation != nil {
			name = out.Violation.Name
		}
		return "assert-failed name=" + name, kind == "violation" || kind == "panic" || kind == "fatal" || kind == "deadlock"
	case "panic", "fatal", "deadlock":
		return out.Kind + " " + truncate(out.Msg, 200), kind == out.Kind || kind == "panic" || kind == "fatal"
	}
	return "no violation in the concrete re-execution (" + out.Kind + " " + truncate(out.Msg, 200) + ")", false
}

func (r *replayer) runNative(pkg, fn, path, kind, assertion string) (string, bool) {
	bin, err := r.ensureBin(pkg)
	if err != nil {
		return err.Error(), false
	}
	// address-space cap so that an unbounded-allocation counterexample ends in
	// a clean "out of memory" fatal error instead of hurting the machine
	cmd := exec.Command("bash", "-c", "ulimit -v 12000000; exec \"$0\" \"$@\"", bin, "-test.run", "^TestVerifReplay$", "-test.count=1", "-test.timeout=30s", "-test.v")
	cmd.Dir = filepath.Join(repoRoot, pkg)
	cmd.Env = append(goEnv(), "VERIF_REPLAY="+path, "VERIF_HARNESS="+fn)
	outB, _ := cmd.CombinedOutput()
	out := string(outB)
	native := "no-outcome"
	for _, l := range strings.Split(out, "\n") {
		if strings.HasPrefix(l, "VRT-OUTCOME ") {
			native = strings.TrimPrefix(l, "VRT-OUTCOME ")
		}
	}
	if native == "no-outcome" {
		switch {
		case strings.Contains(out, "out of memory") || strings.Contains(out, "cannot allocate memory"):
			native = "fatal out of memory"
		case strings.Contains(out, "stack overflow"):
			native = "fatal stack overflow"
		case strings.Contains(out, "test timed out"):
			native = "timeout"
		case strings.Contains(out, "fatal error:"):
			native = "fatal " + firstLineWith(out, "fatal error:")
		case strings.Contains(out, "panic:"):
			native = "panic " + firstLineWith(out, "panic:")
		default:
			native = "no-outcome: " + truncate(out, 300)
		}
	}
	switch kind {
	case "violation":
		if assertion == "alloc-within-budget" && (native == "fatal out of memory" || strings.Contains(native, "makeslice") || strings.Contains(native, "out of range")) {
			return native, true
		}
		// a decode of a few bytes that is still running when the 30 s replay
		// deadline expires loops or works out of all proportion to its input
		if (assertion == "work-in-proportion-to-input" || assertion == "alloc-within-budget") && native == "timeout" {
			return "timeout: the call did not return within the 30 s replay deadline", true
		}
		return native, strings.HasPrefix(native, "assert-failed")
	case "panic":
		return native, strings.HasPrefix(native, "panic") || strings.HasPrefix(native, "assert-failed") || strings.HasPrefix(native, "fatal")
	case "fatal":
		return native, strings.HasPrefix(native, "fatal") || strings.HasPrefix(native, "assert-failed")
	case "deadlock":
		return native, native == "timeout" || strings.HasPrefix(native, "fatal") || strings.HasPrefix(native, "assert-failed")
	}
	return native, false
}

func firstLineWith(out, needle string) string {
	for _, l := range strings.Split(out, "\n") {
		if strings.Contains(l, needle) {
			return truncate(strings.TrimSpace(l), 200)
		}
	}
	return ""
}

func runReplayCmd(prop, path string) int {
	b, err := os.ReadFile(path)
	if err != nil {
		fmt.Println(err)
		return 2
	}
	var rf replayFile
	if err := json.Unmarshal(b, &rf); err != nil {
		fmt.Println(err)
		return 2
	}
	r := &replayer{prop: prop}
	defer r.cleanup()
	if len(rf.Schedule) > 0 {
		return replayTsgen(rf, path)
	}
	if rf.Confirm == "interpreter" {
		ov, err := symgo.OverlayFromDir(filepath.Join(verifRoot, "harness"), repoRoot, false)
		if err != nil {
			fmt.Println(err)
			return 2
		}
		prog, err := symgo.Load(symgo.LoadOptions{Dir: repoRoot, Patterns: []string{"./..."}, Overlay: ov, Tags: []string{"verif"}})
		if err != nil {
			fmt.Println("cannot load:", err)
			return 0
		}
		fn := prog.FindFunc(pkgOf(prog, rf.Pkg), rf.Harness)
		if fn == nil {
			fmt.Println("harness not found")
			return 0
		}
		cfg := symgo.DefaultConfig()
		for k, v := range rf.Params {
			cfg.Params[k] = v
		}
		kind := "violation"
		if i := strings.Index(rf.Engine, ":"); i > 0 {
			kind = rf.Engine[:i]
		}
		outcome, ok := concreteOutcome(prog, fn, cfg, rf.Inputs, rf.Choices, kind, rf.Assertion)
		fmt.Printf("interpreter outcome: %s\n", outcome)
		if ok {
			fmt.Printf("VIOLATION property=%s replay=%s\n", prop, path)
			return 1
		}
		fmt.Println("counterexample does not reproduce on the current tree")
		return 0
	}
	kind := "violation"
	if i := strings.Index(rf.Engine, ":"); i > 0 {
		kind = rf.Engine[:i]
	}
	native, ok := r.runNative(rf.Pkg, rf.Harness, path, kind, rf.Assertion)
	fmt.Printf("native outcome: %s\n", native)
	if ok {
		fmt.Printf("VIOLATION property=%s replay=%s\n", prop, path)
		return 1
	}
	fmt.Println("counterexample does not reproduce on the current tree")
	return 0
}

// ---------------------------------------------------------------------------
// evidence

func writeEvidence(path, prop, tier string, seed int, spec *Spec, results []*jobResult, inconclusive []string, wall time.Duration, nviol int, prog *symgo.Program) {
	level := spec.Level
	if level == "" {
		level = "model_checking"
	}
	var nontrivial int
	var paths, okPaths, decisions, asserts, queries, sat, unsat, unknown, replays, obligations, tsStates, tsTrans int
	var solverS float64
	funcs := map[string]int{}
	stubs := map[string]bool{}
	var samples []any
	var known []confirmedViolation
	for _, r := range results {
		paths += r.Paths
		okPaths += r.ByKind["ok"]
		if r.Engine == "tsgen" {
			nontrivial += r.ByKind["ok"]
		} else {
			nontrivial += r.Nontrivial
		}
		decisions += r.Decisions
		asserts += r.Asserts
		queries += r.Queries
		sat += r.Sat
		unsat += r.Unsat
		unknown += r.Unknown
		solverS += r.SolverS
		replays += r.Replays
		obligations += r.Asserts
		for k, v := range r.Funcs {
			funcs[k] += v
		}
		for _, s := range r.Stubs {
			stubs[s] = true
		}
		if r.Extra != nil {
			if ss, ok := r.Extra["samples"].([]symgo.PathResult); ok && len(samples) < 6 {
				for _, s := range ss {
					if len(samples) < 6 {
						samples = append(samples, map[string]any{"job": r.Name, "trail": s.Trail, "inputs": s.Inputs, "path_condition": s.PC, "reached": s.Reached})
					}
				}
			}
			if n, ok := r.Extra["tsgen_states"].(int); ok {
				tsStates += n
			}
			if n, ok := r.Extra["tsgen_transitions"].(int); ok {
				tsTrans += n
			}
			if tr, ok := r.Extra["tsgen_samples"].([]any); ok {
				for _, s := range tr {
					if len(samples) < 8 {
						samples = append(samples, s)
					}
				}
			}
		}
		known = append(known, r.Confirmed...)
	}
	if len(samples) == 0 {
		samples = append(samples, map[string]any{"note": "no feasible path completed; see undischarged"})
	}
	var fnList []string
	for k := range funcs {
		fnList = append(fnList, k)
	}
	sort.Strings(fnList)
	var stubList []string
	for k := range stubs {
		stubList = append(stubList, k)
	}
	sort.Strings(stubList)
	states := okPaths + tsStates
	if states < 1 {
		states = 1
	}
	transitions := decisions + tsTrans
	if transitions < 1 {
		transitions = 1
	}
	distinct := nontrivial
	ev := map[string]any{
		"property_id": prop,
		"tier":        tier,
		"seed":        seed,
		"level":       level,
		"wall_s":      wall.Seconds(),
		"violations":  nviol,
		"assumptions": append(append([]string{}, spec.Assumptions...), "stubs: "+strings.Join(stubList, ", ")),
		"coverage": map[string]any{
			"explanation":                   spec.Explanation,
			"states":                        states,
			"transitions":                   transitions,
			"traces_validated_against_impl": replays,
			"evaluations":                   maxInt(paths, 1),
			"distinct_nontrivial":           distinct,
			"rule":                          "one evaluation = one explored path of a harness (a conjunction of branch decisions over symbolic inputs, decided feasible by the solver; paths have pairwise different decision trails, hence disjoint path conditions) or one BMC query of a tsgen job; distinct_nontrivial counts the feasible paths that ran to the end of the harness with every assertion discharged, that executed at least one assertion, AND on which the solver decided at least one branch condition or assertion condition over symbolic inputs (so the path stands for a non-empty set of inputs selected by a non-trivial path condition), plus tsgen queries answered unsat — infeasible, truncated, unsupported paths, assertion-free paths and fully concrete paths are not counted",
			"samples":                       samples,
			"exhaustive":                    len(inconclusive) == 0,
			"obligations":                   obligations,
			"discharged":                    obligations,
			"solver_queries":                queries,
			"solver_sat":                    sat,
			"solver_unsat":                  unsat,
			"solver_unknown_or_error":       unknown,
			"solver_time_s":                 solverS,
			"functions_encoded":             fnList,
			"jobs":                          results,
			"undischarged":                  inconclusive,
			"confirmed_counterexamples":     known,
			"trusted_base":                  spec.Trusted,
			"second_solver_crosscheck":      xcheckGlobal,
		},
	}
	b, _ := json.MarshalIndent(ev, "", " ")
	os.WriteFile(path, b, 0o644)
}

func maxInt(a, b int) int {
	if a > b {
		return a
	}
	return b
}
