package main

import (
	"fmt"

	"verif/engine/symgo"
)

func runTsgenJob(prog *symgo.Program, inst instance, tier string, workers int, solver string, rp *replayer, verbose bool) *jobResult {
	jr := &jobResult{Name: inst.name, Engine: "tsgen", Params: inst.params, ByKind: map[string]int{}}
	jr.Problems = append(jr.Problems, symgo.PathResult{Kind: "unsupported", Msg: "tsgen engine not built yet"})
	return jr
}

func replayTsgen(rf replayFile, path string) int {
	fmt.Println("tsgen replay not built yet")
	return 0
}
