package main

import (
	"encoding/json"
	"fmt"
	"os"
	"path/filepath"
	"strings"
	"time"

	"verif/engine/symgo"
)

type tsReplayFile struct {
	Property  string            `json:"property"`
	Job       string            `json:"job"`
	Pkg       string            `json:"pkg"`
	Harness   string            `json:"harness"`
	Assertion string            `json:"assertion"`
	Engine    string            `json:"engine_outcome"`
	Params    map[string]int64  `json:"params"`
	Schedule  []int             `json:"schedule"`
	Threads   []string          `json:"threads"`
	SymInit   map[string]uint64 `json:"symbolic_initial_cells"`
	Pool      int               `json:"pool"`
	Steps     []string          `json:"steps,omitempty"`
}

func runTsgenJob(prog *symgo.Program, inst instance, tier string, workers int, solver string, rp *replayer, verbose bool) *jobResult {
	js := inst.spec
	start := time.Now()
	jr := &jobResult{Name: inst.name, Engine: "tsgen", Params: inst.params, ByKind: map[string]int{}, Extra: map[string]any{}}
	pkgPath := prog.TargetMod
	if js.Pkg != "" && js.Pkg != "." {
		pkgPath += "/" + js.Pkg
	}
	fn := prog.FindFunc(pkgPath, js.Fn)
	if fn == nil {
		jr.Problems = append(jr.Problems, symgo.PathResult{Kind: "unsupported", Msg: "scenario function " + pkgPath + "." + js.Fn + " not found"})
		return jr
	}
	jr.Harness = fn.String()
	cfg := symgo.DefaultConfig()
	for k, v := range inst.params {
		cfg.Params[k] = v
	}
	K := int(inst.params["K"])
	if K == 0 {
		K = 20
	}
	pool := int(inst.params["pool"])
	if pool == 0 {
		pool = 2
	}
	ts, err := prog.BuildTS(fn, cfg, solver, 60000)
	if err != nil {
		jr.Problems = append(jr.Problems, symgo.PathResult{Kind: "unsupported", Msg: "transition relation could not be derived from the SSA: " + err.Error()})
		jr.WallS = time.Since(start).Seconds()
		return jr
	}
	ncuts, nout := 0, 0
	var types []string
	for _, tt := range ts.Types {
		ncuts += len(tt.PCs)
		for _, pc := range tt.PCs {
			nout += len(pc.Outcomes)
		}
		types = append(types, fmt.Sprintf("%s: %d cut points, %d registers", tt.Name, len(tt.PCs), len(tt.Regs)))
	}
	jr.Funcs = ts.Funcs
	timeout := js.TimeoutQuickS
	if tier == "thorough" {
		timeout = js.TimeoutThoroughS
	}
	if timeout == 0 {
		timeout = 600
	}
	res, err := ts.CheckBMC(symgo.BMCOptions{K: K, Pool: pool, Solver: solver, TimeoutMS: timeout * 1000, ProgressB: int(inst.params["progress"]), NoBlocked: inst.params["noblocked"] == 1})
	if err != nil {
		jr.Problems = append(jr.Problems, symgo.PathResult{Kind: "engine-fault", Msg: err.Error()})
		return jr
	}
	jr.Queries = res.Queries
	jr.SolverS = res.SolverS + float64(ts.Stats.SolverNS)/1e9
	jr.Paths = 1
	jr.Decisions = nout * K
	jr.Asserts = len(ts.Safety)*(K+1) + len(ts.Final)*(K+1)
	jr.Extra["relation"] = map[string]any{"thread_types": types, "shared_cells": len(ts.Cells), "cut_points": ncuts, "guarded_transitions": nout}
	jr.Extra["bmc"] = map[string]any{"K": K, "goroutine_pool": pool, "terms": res.Terms, "solver_vars": res.Vars,
		"some_schedule_not_quiescent_at_K": res.NotQuiescent, "some_schedule_needs_more_goroutine_slots": res.PoolOverflow,
		"some_schedule_exceeds_narrow_counter_range": res.RangeExceeded, "state_variables_widened_after_range_check": res.Widened, "threads": res.Threads,
		"partial_order_reduction": "adjacent statically independent steps must be in thread order; halt option keeps prefixes representable",
		"state_width_bits": "8, raised per variable until no schedule leaves the range"}
	jr.Extra["tsgen_states"] = ncuts
	jr.Extra["tsgen_transitions"] = nout
	if res.Unknown {
		jr.Unknown++
		jr.Problems = append(jr.Problems, symgo.PathResult{Kind: "unknown", Msg: fmt.Sprintf("solver did not answer the BMC query at K=%d within %ds", K, timeout)})
	}
	if res.RangeExceeded && res.Violated == "" && !res.Unknown {
		jr.Unknown++
		jr.Problems = append(jr.Problems, symgo.PathResult{Kind: "unknown", Msg: "some schedules leave the narrow state range even after widening; they are not covered"})
	}
	if res.Violated != "" {
		jr.ByKind["violation"]++
		path, confirmed, note := replayScheduleAndRecord(prog, fn, cfg, rp.prop, inst, js, res, pool)
		jr.Replays++
		if confirmed != "" {
			jr.Confirmed = append(jr.Confirmed, confirmedViolation{Job: inst.name, Assertion: confirmed, Replay: path, Native: "interpreter replay of the schedule on the real SSA: " + note})
		} else {
			jr.Unconfirmed = append(jr.Unconfirmed, fmt.Sprintf("property %s (%s): schedule did not reproduce in the interpreter: %s", res.Violated, res.Kind, note))
		}
	} else if !res.Unknown {
		jr.ByKind["ok"]++
		// validate the model against the implementation on a sampled run
		if res.Sample != nil {
			rr, err := prog.ReplayTS(fn, cfg, pool, res.Sample.Schedule, res.Sample.SymInit)
			jr.Replays++
			switch {
			case err != nil:
				jr.Problems = append(jr.Problems, symgo.PathResult{Kind: "engine-fault", Msg: "validation replay failed: " + err.Error()})
			case rr.Mismatch != "":
				jr.Problems = append(jr.Problems, symgo.PathResult{Kind: "engine-fault", Msg: "model/implementation mismatch on a sampled schedule: " + rr.Mismatch})
			case rr.Violated != "":
				jr.Problems = append(jr.Problems, symgo.PathResult{Kind: "engine-fault", Msg: "model/implementation mismatch: sampled schedule violates " + rr.Violated + " in the interpreter but not in the model"})
			default:
				var diffs []string
				for name, mv := range res.Sample.FinalCells {
					if iv, ok := rr.FinalCells[name]; ok && (iv&0xff) != (mv&0xff) {
						diffs = append(diffs, fmt.Sprintf("%s model=%d impl=%d", name, mv, iv))
					}
				}
				if len(diffs) > 0 {
					jr.Problems = append(jr.Problems, symgo.PathResult{Kind: "engine-fault", Msg: "model/implementation mismatch in final state: " + strings.Join(diffs, ", ")})
				} else {
					jr.Extra["tsgen_samples"] = []any{map[string]any{"job": inst.name, "validated_schedule": res.Sample.Schedule, "threads": res.Sample.Threads, "steps": rr.Steps}}
				}
			}
		}
	}
	jr.WallS = time.Since(start).Seconds()
	return jr
}

func replayScheduleAndRecord(prog *symgo.Program, fn interface{ String() string }, cfg symgo.Config, prop string, inst instance, js JobSpec, res *symgo.BMCResult, pool int) (path, confirmed, note string) {
	dir := filepath.Join(outRoot, "replays", prop)
	os.MkdirAll(dir, 0o755)
	safe := strings.NewReplacer("[", "_", "]", "", "/", "_", " ", "_", "*", "", "(", "", ")", "", "\"", "", ":", "", ";", "", "…", "").Replace(inst.name + "-" + truncate(res.Violated, 40))
	path = filepath.Join(dir, safe+"-schedule.json")
	rf := tsReplayFile{Property: prop, Job: inst.name, Pkg: js.Pkg, Harness: js.Fn, Assertion: res.Violated, Engine: res.Kind, Params: inst.params,
		Schedule: res.Schedule, Threads: res.Threads, SymInit: res.SymInit, Pool: pool}
	sfn := prog.FindFunc(pkgOf(prog, js.Pkg), js.Fn)
	rr, err := prog.ReplayTS(sfn, cfg, pool, res.Schedule, res.SymInit)
	if err != nil {
		note = err.Error()
	} else {
		rf.Steps = rr.Steps
		switch {
		case rr.Mismatch != "":
			note = rr.Mismatch
		case rr.Violated != "":
			confirmed = rr.Violated
			if res.Kind != "fault" && rr.Violated != res.Violated {
				confirmed = rr.Violated
			}
			if res.Kind == "fault" {
				confirmed = "no-fault"
			}
			note = rr.Kind + " " + rr.Violated + " " + rr.Fault
		case res.Kind == "blocked" && rr.Quiescent && rr.Blocked > 0:
			confirmed = res.Violated
			note = fmt.Sprintf("%d goroutine(s) blocked forever at quiescence", rr.Blocked)
		case res.Kind == "progress" && rr.StillRunnable > 0:
			confirmed = res.Violated
			note = fmt.Sprintf("%d goroutine(s) still runnable after the schedule", rr.StillRunnable)
		default:
			note = "no property violated during the replay"
		}
	}
	b, _ := json.MarshalIndent(rf, "", " ")
	os.WriteFile(path, b, 0o644)
	return
}

func pkgOf(prog *symgo.Program, rel string) string {
	if rel == "" || rel == "." {
		return prog.TargetMod
	}
	return prog.TargetMod + "/" + rel
}

func replayTsgen(rf replayFile, path string) int {
	b, err := os.ReadFile(path)
	if err != nil {
		fmt.Println(err)
		return 2
	}
	var tr tsReplayFile
	if err := json.Unmarshal(b, &tr); err != nil {
		fmt.Println(err)
		return 2
	}
	ov, err := symgo.OverlayFromDir(filepath.Join(verifRoot, "harness"), repoRoot, false)
	if err != nil {
		fmt.Println(err)
		return 2
	}
	prog, err := symgo.Load(symgo.LoadOptions{Dir: repoRoot, Patterns: []string{"./..."}, Overlay: ov, Tags: []string{"verif"}})
	if err != nil {
		fmt.Println("cannot load:", err)
		return 0
	}
	fn := prog.FindFunc(pkgOf(prog, tr.Pkg), tr.Harness)
	if fn == nil {
		fmt.Println("scenario not found")
		return 0
	}
	cfg := symgo.DefaultConfig()
	for k, v := range tr.Params {
		cfg.Params[k] = v
	}
	rr, err := prog.ReplayTS(fn, cfg, tr.Pool, tr.Schedule, tr.SymInit)
	if err != nil {
		fmt.Println("replay:", err)
		return 0
	}
	for _, s := range rr.Steps {
		fmt.Println("  ", s)
	}
	if rr.Violated != "" {
		fmt.Printf("replay violates %s (%s) %s\n", rr.Violated, rr.Kind, rr.Fault)
		fmt.Printf("VIOLATION property=%s replay=%s\n", tr.Property, path)
		return 1
	}
	fmt.Println("schedule does not violate any property on the current tree", rr.Mismatch)
	return 0
}
