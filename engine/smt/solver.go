package smt

import (
	"bufio"
	"fmt"
	"io"
	"os/exec"
	"strconv"
	"strings"
	"time"
)

type Result int

const (
	Unknown Result = iota
	Sat
	Unsat
)

func (r Result) String() string {
	switch r {
	case Sat:
		return "sat"
	case Unsat:
		return "unsat"
	}
	return "unknown"
}

// Stats are accumulated per solver process.
type Stats struct {
	Queries  int
	Sat      int
	Unsat    int
	Unknown  int
	Errors   int
	SolverNS int64
}

func (s *Stats) Add(o Stats) {
	s.Queries += o.Queries
	s.Sat += o.Sat
	s.Unsat += o.Unsat
	s.Unknown += o.Unknown
	s.Errors += o.Errors
	s.SolverNS += o.SolverNS
}

// Solver is one live solver process spoken to in SMT-LIB2 text.
// Level-0 holds declarations, definitions and the path condition; every
// tentative query is wrapped in push/pop.
type Solver struct {
	Name      string
	cmd       *exec.Cmd
	in        io.WriteCloser
	w         *bufio.Writer
	out       *bufio.Reader
	defined   map[*Term]bool
	Stats     Stats
	TimeoutMS int
	Log       io.Writer // optional transcript
	Parallel  bool      // z3: enable the parallel (cube-and-conquer) mode
	Tactic    string    // z3: if set, queries use (check-sat-using <tactic>)
	dead      bool
}

// Backend names: "z3" (4.8.12), "z3-new" (5.1.0), "cvc5".
func NewSolver(backend string, timeoutMS int) (*Solver, error) {
	var cmd *exec.Cmd
	switch backend {
	case "z3", "z3-new":
		cmd = exec.Command(backend, "-in", "-smt2")
	case "cvc5":
		cmd = exec.Command("cvc5", "--incremental", "--lang=smt2", "--produce-models", fmt.Sprintf("--tlimit-per=%d", timeoutMS))
	default:
		return nil, fmt.Errorf("unknown solver backend %q", backend)
	}
	in, err := cmd.StdinPipe()
	if err != nil {
		return nil, err
	}
	outp, err := cmd.StdoutPipe()
	if err != nil {
		return nil, err
	}
	cmd.Stderr = nil
	if err := cmd.Start(); err != nil {
		return nil, err
	}
	s := &Solver{Name: backend, cmd: cmd, in: in, w: bufio.NewWriterSize(in, 1<<16), out: bufio.NewReaderSize(outp, 1<<16), defined: map[*Term]bool{}, TimeoutMS: timeoutMS}
	s.prelude()
	return s, nil
}

func (s *Solver) prelude() {
	if s.Name == "cvc5" {
		s.send("(set-logic QF_BV)")
	} else {
		s.send(fmt.Sprintf("(set-option :timeout %d)", s.TimeoutMS))
	}
	s.send("(set-option :produce-models true)")
	if s.Parallel && s.Name != "cvc5" {
		s.send("(set-option :parallel.enable true)")
	}
}

func (s *Solver) send(line string) {
	if s.Log != nil {
		fmt.Fprintln(s.Log, line)
	}
	if _, err := s.w.WriteString(line); err != nil {
		s.dead = true
	}
	s.w.WriteByte('\n')
}

func (s *Solver) readLine() (string, error) {
	if err := s.w.Flush(); err != nil {
		s.dead = true
		return "", err
	}
	l, err := s.out.ReadString('\n')
	if err != nil {
		s.dead = true
		return "", err
	}
	l = strings.TrimSpace(l)
	if s.Log != nil {
		fmt.Fprintln(s.Log, "; <- "+l)
	}
	return l, nil
}

// Reset discards all declarations, definitions and assertions.
func (s *Solver) Reset() {
	s.send("(reset)")
	s.defined = map[*Term]bool{}
	s.prelude()
}

func (s *Solver) Close() {
	if s.cmd == nil {
		return
	}
	s.send("(exit)")
	s.w.Flush()
	s.in.Close()
	done := make(chan struct{})
	go func() { s.cmd.Wait(); close(done) }()
	select {
	case <-done:
	case <-time.After(2 * time.Second):
		s.cmd.Process.Kill()
		<-done
	}
	s.cmd = nil
}

// define emits declarations/definitions needed to mention t and returns its reference.
func (s *Solver) define(t *Term) string {
	switch t.Op {
	case OpConst:
		return t.expr(nil)
	case OpVar:
		if !s.defined[t] {
			s.defined[t] = true
			s.send(fmt.Sprintf("(declare-const %s %s)", t.Name, t.SortString()))
		}
		return t.Name
	}
	name := "t" + strconv.Itoa(t.ID)
	if s.defined[t] {
		return name
	}
	// iterative post-order to avoid deep recursion on long chains
	type fr struct {
		t *Term
		i int
	}
	stack := []fr{{t, 0}}
	for len(stack) > 0 {
		top := &stack[len(stack)-1]
		if top.i < len(top.t.Args) {
			a := top.t.Args[top.i]
			top.i++
			if a.Op == OpConst || s.defined[a] {
				continue
			}
			if a.Op == OpVar {
				s.define(a)
				continue
			}
			stack = append(stack, fr{a, 0})
			continue
		}
		x := top.t
		stack = stack[:len(stack)-1]
		if s.defined[x] {
			continue
		}
		s.defined[x] = true
		s.send(fmt.Sprintf("(define-fun t%d () %s %s)", x.ID, x.SortString(), x.expr(s.ref)))
	}
	return name
}

func (s *Solver) ref(t *Term) string {
	switch t.Op {
	case OpConst:
		return t.expr(nil)
	case OpVar:
		return t.Name
	}
	return "t" + strconv.Itoa(t.ID)
}

// Assert adds t to the level-0 assertion set (the path condition).
func (s *Solver) Assert(t *Term) {
	r := s.define(t)
	s.send("(assert " + r + ")")
}

// Check asks whether (level-0 assertions ∧ extra...) is satisfiable. If the
// answer is sat and wantModel is non-empty, values of those variables are
// returned. Any "(error" line from the solver makes the result Unknown.
func (s *Solver) Check(extra []*Term, wantModel []*Term) (Result, map[string]uint64) {
	if s.dead {
		s.Stats.Queries++
		s.Stats.Errors++
		return Unknown, nil
	}
	refs := make([]string, len(extra))
	for i, e := range extra {
		refs[i] = s.define(e)
	}
	for _, v := range wantModel {
		s.define(v)
	}
	start := time.Now()
	s.send("(push 1)")
	for _, r := range refs {
		s.send("(assert " + r + ")")
	}
	if s.Tactic != "" && s.Name != "cvc5" {
		s.send("(check-sat-using " + s.Tactic + ")")
	} else {
		s.send("(check-sat)")
	}
	res := Unknown
	sawErr := false
	for {
		l, err := s.readLine()
		if err != nil {
			sawErr = true
			break
		}
		if strings.HasPrefix(l, "(error") {
			sawErr = true
			continue
		}
		if l == "sat" {
			res = Sat
			break
		}
		if l == "unsat" {
			res = Unsat
			break
		}
		if l == "unknown" || l == "timeout" {
			res = Unknown
			break
		}
	}
	var model map[string]uint64
	if res == Sat && len(wantModel) > 0 && !sawErr {
		model = map[string]uint64{}
		// query in chunks to keep lines short
		for i := 0; i < len(wantModel); i += 64 {
			j := i + 64
			if j > len(wantModel) {
				j = len(wantModel)
			}
			var sb strings.Builder
			sb.WriteString("(get-value (")
			for _, v := range wantModel[i:j] {
				sb.WriteString(v.Name)
				sb.WriteByte(' ')
			}
			sb.WriteString("))")
			s.send(sb.String())
			txt, err := s.readSexp()
			if err != nil || strings.HasPrefix(txt, "(error") {
				sawErr = true
				break
			}
			parseValues(txt, model)
		}
	}
	s.send("(pop 1)")
	s.Stats.Queries++
	s.Stats.SolverNS += time.Since(start).Nanoseconds()
	if sawErr {
		s.Stats.Errors++
		return Unknown, nil
	}
	switch res {
	case Sat:
		s.Stats.Sat++
	case Unsat:
		s.Stats.Unsat++
	default:
		s.Stats.Unknown++
	}
	return res, model
}

// readSexp reads one balanced s-expression (possibly spanning lines).
func (s *Solver) readSexp() (string, error) {
	var sb strings.Builder
	depth := 0
	started := false
	for {
		l, err := s.readLine()
		if err != nil {
			return "", err
		}
		sb.WriteString(l)
		sb.WriteByte(' ')
		for _, ch := range l {
			if ch == '(' {
				depth++
				started = true
			} else if ch == ')' {
				depth--
			}
		}
		if started && depth <= 0 {
			return sb.String(), nil
		}
		if !started && l != "" {
			return sb.String(), nil
		}
	}
}

// parseValues parses "((x #x0f) (y true) (z (_ bv3 8)))".
func parseValues(txt string, out map[string]uint64) {
	toks := tokenize(txt)
	// find pairs: "(" name value... ")"
	i := 0
	if i < len(toks) && toks[i] == "(" {
		i++
	}
	for i < len(toks) {
		if toks[i] != "(" {
			i++
			continue
		}
		i++
		if i >= len(toks) {
			break
		}
		name := toks[i]
		i++
		// value: atom or parenthesised (_ bvN w)
		if i < len(toks) && toks[i] == "(" {
			// (_ bvN w)
			j := i
			depth := 0
			for j < len(toks) {
				if toks[j] == "(" {
					depth++
				} else if toks[j] == ")" {
					depth--
					if depth == 0 {
						break
					}
				}
				j++
			}
			for _, t := range toks[i:j] {
				if strings.HasPrefix(t, "bv") {
					if v, err := strconv.ParseUint(t[2:], 10, 64); err == nil {
						out[name] = v
					}
				}
			}
			i = j + 1
		} else if i < len(toks) {
			out[name] = parseAtom(toks[i])
			i++
		}
		// closing paren
		for i < len(toks) && toks[i] != ")" {
			i++
		}
		i++
	}
}

func parseAtom(a string) uint64 {
	switch {
	case a == "true":
		return 1
	case a == "false":
		return 0
	case strings.HasPrefix(a, "#x"):
		v, _ := strconv.ParseUint(a[2:], 16, 64)
		return v
	case strings.HasPrefix(a, "#b"):
		v, _ := strconv.ParseUint(a[2:], 2, 64)
		return v
	}
	v, _ := strconv.ParseUint(a, 10, 64)
	return v
}

func tokenize(s string) []string {
	var toks []string
	cur := strings.Builder{}
	flush := func() {
		if cur.Len() > 0 {
			toks = append(toks, cur.String())
			cur.Reset()
		}
	}
	for _, ch := range s {
		switch ch {
		case '(', ')':
			flush()
			toks = append(toks, string(ch))
		case ' ', '\t', '\n', '\r':
			flush()
		default:
			cur.WriteRune(ch)
		}
	}
	flush()
	return toks
}
