// Package smt is a small hash-consed term library over the SMT-LIB2 theory of
// fixed-size bit-vectors (widths 1..64) and booleans, with constant folding,
// an evaluator (used to cross-check solver models before replay) and a
// printer that emits every DAG node once as a 0-ary define-fun.
package smt

import (
	"fmt"
	"math/bits"
	"strings"
)

type Op uint8

const (
	OpConst Op = iota
	OpVar
	// boolean
	OpNot
	OpAnd
	OpOr
	OpIte // args: cond, then, else (bool or bv)
	OpEq  // args same sort -> bool
	// bit-vector -> bit-vector
	OpAdd
	OpSub
	OpMul
	OpUDiv
	OpURem
	OpSDiv
	OpSRem
	OpBvAnd
	OpBvOr
	OpBvXor
	OpBvNot
	OpNeg
	OpShl
	OpLShr
	OpAShr
	OpExtract // Hi, Lo
	OpConcat
	OpZExt // to width W
	OpSExt // to width W
	// bit-vector -> bool
	OpUlt
	OpUle
	OpSlt
	OpSle
)

var opNames = map[Op]string{
	OpNot: "not", OpAnd: "and", OpOr: "or", OpIte: "ite", OpEq: "=",
	OpAdd: "bvadd", OpSub: "bvsub", OpMul: "bvmul", OpUDiv: "bvudiv", OpURem: "bvurem",
	OpSDiv: "bvsdiv", OpSRem: "bvsrem", OpBvAnd: "bvand", OpBvOr: "bvor", OpBvXor: "bvxor",
	OpBvNot: "bvnot", OpNeg: "bvneg", OpShl: "bvshl", OpLShr: "bvlshr", OpAShr: "bvashr",
	OpConcat: "concat", OpUlt: "bvult", OpUle: "bvule", OpSlt: "bvslt", OpSle: "bvsle",
}

// Term is an immutable, hash-consed term. W == 0 means Bool.
type Term struct {
	Op     Op
	W      int // 0 = Bool, else bit width
	Args   []*Term
	Val    uint64 // OpConst: value (Bool: 0/1)
	Name   string // OpVar
	Hi, Lo int    // OpExtract
	ID     int
}

func (t *Term) IsConst() bool { return t.Op == OpConst }
func (t *Term) IsBool() bool  { return t.W == 0 }
func (t *Term) IsTrue() bool  { return t.Op == OpConst && t.W == 0 && t.Val == 1 }
func (t *Term) IsFalse() bool { return t.Op == OpConst && t.W == 0 && t.Val == 0 }

// Ctx owns a hash-consing table. Not safe for concurrent use.
type Ctx struct {
	tab   map[string]*Term
	next  int
	Vars  []*Term // in creation order
	True  *Term
	False *Term
}

func NewCtx() *Ctx {
	c := &Ctx{tab: map[string]*Term{}}
	c.True = c.mk(&Term{Op: OpConst, W: 0, Val: 1})
	c.False = c.mk(&Term{Op: OpConst, W: 0, Val: 0})
	return c
}

func (c *Ctx) NumTerms() int { return c.next }

func (c *Ctx) mk(t *Term) *Term {
	var sb strings.Builder
	fmt.Fprintf(&sb, "%d|%d|%d|%s|%d|%d", t.Op, t.W, t.Val, t.Name, t.Hi, t.Lo)
	for _, a := range t.Args {
		fmt.Fprintf(&sb, "|%d", a.ID)
	}
	k := sb.String()
	if e, ok := c.tab[k]; ok {
		return e
	}
	t.ID = c.next
	c.next++
	c.tab[k] = t
	if t.Op == OpVar {
		c.Vars = append(c.Vars, t)
	}
	return t
}

func mask(w int) uint64 {
	if w >= 64 {
		return ^uint64(0)
	}
	return (uint64(1) << uint(w)) - 1
}

func signExt(v uint64, w int) int64 {
	if w >= 64 {
		return int64(v)
	}
	sh := uint(64 - w)
	return int64(v<<sh) >> sh
}

func (c *Ctx) Bool(b bool) *Term {
	if b {
		return c.True
	}
	return c.False
}

func (c *Ctx) BV(v uint64, w int) *Term {
	if w <= 0 || w > 64 {
		panic(fmt.Sprintf("smt: bad width %d", w))
	}
	return c.mk(&Term{Op: OpConst, W: w, Val: v & mask(w)})
}

// Var returns the variable of that name and width (w==0: Bool).
func (c *Ctx) Var(name string, w int) *Term {
	return c.mk(&Term{Op: OpVar, W: w, Name: name})
}

func (c *Ctx) Not(a *Term) *Term {
	if a.W != 0 {
		panic("smt: Not of non-bool")
	}
	if a.IsConst() {
		return c.Bool(a.Val == 0)
	}
	if a.Op == OpNot {
		return a.Args[0]
	}
	return c.mk(&Term{Op: OpNot, W: 0, Args: []*Term{a}})
}

func (c *Ctx) And(as ...*Term) *Term {
	var out []*Term
	for _, a := range as {
		if a.W != 0 {
			panic("smt: And of non-bool")
		}
		if a.IsFalse() {
			return c.False
		}
		if a.IsTrue() {
			continue
		}
		dup := false
		for _, o := range out {
			if o == a {
				dup = true
				break
			}
		}
		if !dup {
			out = append(out, a)
		}
	}
	switch len(out) {
	case 0:
		return c.True
	case 1:
		return out[0]
	}
	return c.mk(&Term{Op: OpAnd, W: 0, Args: out})
}

func (c *Ctx) Or(as ...*Term) *Term {
	var out []*Term
	for _, a := range as {
		if a.W != 0 {
			panic("smt: Or of non-bool")
		}
		if a.IsTrue() {
			return c.True
		}
		if a.IsFalse() {
			continue
		}
		dup := false
		for _, o := range out {
			if o == a {
				dup = true
				break
			}
		}
		if !dup {
			out = append(out, a)
		}
	}
	switch len(out) {
	case 0:
		return c.False
	case 1:
		return out[0]
	}
	return c.mk(&Term{Op: OpOr, W: 0, Args: out})
}

func (c *Ctx) Implies(a, b *Term) *Term { return c.Or(c.Not(a), b) }

func (c *Ctx) Ite(cond, a, b *Term) *Term {
	if cond.W != 0 || a.W != b.W {
		panic(fmt.Sprintf("smt: Ite sorts cond=%d a=%d b=%d", cond.W, a.W, b.W))
	}
	if cond.IsTrue() {
		return a
	}
	if cond.IsFalse() {
		return b
	}
	if a == b {
		return a
	}
	if a.W == 0 {
		if a.IsTrue() && b.IsFalse() {
			return cond
		}
		if a.IsFalse() && b.IsTrue() {
			return c.Not(cond)
		}
	}
	return c.mk(&Term{Op: OpIte, W: a.W, Args: []*Term{cond, a, b}})
}

func (c *Ctx) Eq(a, b *Term) *Term {
	if a.W != b.W {
		panic(fmt.Sprintf("smt: Eq widths %d %d", a.W, b.W))
	}
	if a == b {
		return c.True
	}
	if a.IsConst() && b.IsConst() {
		return c.Bool(a.Val == b.Val)
	}
	if a.W == 0 {
		if a.IsConst() {
			a, b = b, a
		}
		if b.IsTrue() {
			return a
		}
		if b.IsFalse() {
			return c.Not(a)
		}
	}
	if a.ID > b.ID {
		a, b = b, a
	}
	return c.mk(&Term{Op: OpEq, W: 0, Args: []*Term{a, b}})
}

func (c *Ctx) Ne(a, b *Term) *Term { return c.Not(c.Eq(a, b)) }

func evalBin(op Op, w int, x, y uint64) uint64 {
	m := mask(w)
	switch op {
	case OpAdd:
		return (x + y) & m
	case OpSub:
		return (x - y) & m
	case OpMul:
		return (x * y) & m
	case OpUDiv:
		if y == 0 {
			return m
		}
		return (x / y) & m
	case OpURem:
		if y == 0 {
			return x
		}
		return (x % y) & m
	case OpSDiv:
		sx, sy := signExt(x, w), signExt(y, w)
		if sy == 0 {
			if sx < 0 {
				return 1
			}
			return m
		}
		if sy == -1 {
			return uint64(-sx) & m
		}
		return uint64(sx/sy) & m
	case OpSRem:
		sx, sy := signExt(x, w), signExt(y, w)
		if sy == 0 {
			return x
		}
		if sy == -1 {
			return 0
		}
		return uint64(sx%sy) & m
	case OpBvAnd:
		return x & y
	case OpBvOr:
		return x | y
	case OpBvXor:
		return x ^ y
	case OpShl:
		if y >= uint64(w) {
			return 0
		}
		return (x << y) & m
	case OpLShr:
		if y >= uint64(w) {
			return 0
		}
		return (x >> y) & m
	case OpAShr:
		sx := signExt(x, w)
		if y >= uint64(w) {
			if sx < 0 {
				return m
			}
			return 0
		}
		return uint64(sx>>y) & m
	}
	panic("smt: evalBin")
}

func evalCmp(op Op, w int, x, y uint64) bool {
	switch op {
	case OpUlt:
		return x < y
	case OpUle:
		return x <= y
	case OpSlt:
		return signExt(x, w) < signExt(y, w)
	case OpSle:
		return signExt(x, w) <= signExt(y, w)
	}
	panic("smt: evalCmp")
}

// Bin builds a binary bit-vector operation with light simplification.
func (c *Ctx) Bin(op Op, a, b *Term) *Term {
	if a.W != b.W || a.W == 0 {
		panic(fmt.Sprintf("smt: Bin %s widths %d %d", opNames[op], a.W, b.W))
	}
	w := a.W
	if a.IsConst() && b.IsConst() {
		return c.BV(evalBin(op, w, a.Val, b.Val), w)
	}
	switch op {
	case OpAdd, OpBvOr, OpBvXor:
		if a.IsConst() && a.Val == 0 {
			return b
		}
		if b.IsConst() && b.Val == 0 {
			return a
		}
	case OpSub, OpShl, OpLShr, OpAShr:
		if b.IsConst() && b.Val == 0 {
			return a
		}
	case OpBvAnd:
		if a.IsConst() && a.Val == 0 || b.IsConst() && b.Val == 0 {
			return c.BV(0, w)
		}
		if a.IsConst() && a.Val == mask(w) {
			return b
		}
		if b.IsConst() && b.Val == mask(w) {
			return a
		}
	case OpMul:
		if a.IsConst() && a.Val == 1 {
			return b
		}
		if b.IsConst() && b.Val == 1 {
			return a
		}
		if a.IsConst() && a.Val == 0 || b.IsConst() && b.Val == 0 {
			return c.BV(0, w)
		}
	}
	if (op == OpShl || op == OpLShr) && b.IsConst() && b.Val >= uint64(w) {
		return c.BV(0, w)
	}
	// (x >>u k) of width w with constant k: extract+zext keeps solver terms small.
	if op == OpLShr && b.IsConst() {
		k := int(b.Val)
		return c.ZExt(c.Extract(a, w-1, k), w)
	}
	if op == OpShl && b.IsConst() {
		k := int(b.Val)
		return c.Concat(c.Extract(a, w-1-k, 0), c.BV(0, k))
	}
	if op == OpBvOr || op == OpAdd || op == OpBvXor {
		// disjoint-bits reassembly: (zext hi ++ zeros) | zext lo → concat when provable syntactically
		if r := c.tryJoin(a, b); r != nil {
			return r
		}
	}
	return c.mk(&Term{Op: op, W: w, Args: []*Term{a, b}})
}

// knownZeroMask returns a mask of bits syntactically known to be zero.
func knownZero(t *Term) uint64 {
	switch t.Op {
	case OpConst:
		return ^t.Val & mask(t.W)
	case OpZExt:
		inner := t.Args[0]
		return (mask(t.W) &^ mask(inner.W)) | knownZero(inner)
	case OpConcat:
		hi, lo := t.Args[0], t.Args[1]
		return knownZero(hi)<<uint(lo.W) | knownZero(lo)
	case OpBvAnd:
		return knownZero(t.Args[0]) | knownZero(t.Args[1])
	case OpBvOr, OpBvXor:
		return knownZero(t.Args[0]) & knownZero(t.Args[1])
	}
	return 0
}

// tryJoin rewrites a|b (or a+b, a^b) into a concat when a is only non-zero in
// the bits [w-1:k] and b only in [k-1:0] for some k, which is the shape the
// big/little-endian decoders produce. Returns nil if not applicable.
func (c *Ctx) tryJoin(a, b *Term) *Term {
	w := a.W
	za, zb := knownZero(a), knownZero(b)
	if (za|zb)&mask(w) != mask(w) {
		return nil // some bit may be set in both
	}
	// find k: b zero above k, a zero below k
	try := func(hi, lo *Term, zhi, zlo uint64) *Term {
		// lo's highest possibly-set bit
		k := 64 - bits.LeadingZeros64(^zlo&mask(w))
		if k == 0 || k >= w {
			return nil
		}
		if zhi&mask(k) != mask(k) {
			return nil
		}
		return c.Concat(c.Extract(hi, w-1, k), c.Extract(lo, k-1, 0))
	}
	if r := try(a, b, za, zb); r != nil {
		return r
	}
	return try(b, a, zb, za)
}

func (c *Ctx) Cmp(op Op, a, b *Term) *Term {
	if a.W != b.W || a.W == 0 {
		panic(fmt.Sprintf("smt: Cmp widths %d %d", a.W, b.W))
	}
	if a.IsConst() && b.IsConst() {
		return c.Bool(evalCmp(op, a.W, a.Val, b.Val))
	}
	if a == b {
		return c.Bool(op == OpUle || op == OpSle)
	}
	return c.mk(&Term{Op: op, W: 0, Args: []*Term{a, b}})
}

func (c *Ctx) BvNot(a *Term) *Term {
	if a.IsConst() {
		return c.BV(^a.Val, a.W)
	}
	if a.Op == OpBvNot {
		return a.Args[0]
	}
	return c.mk(&Term{Op: OpBvNot, W: a.W, Args: []*Term{a}})
}

func (c *Ctx) Neg(a *Term) *Term {
	if a.IsConst() {
		return c.BV(-a.Val, a.W)
	}
	return c.mk(&Term{Op: OpNeg, W: a.W, Args: []*Term{a}})
}

func (c *Ctx) Extract(a *Term, hi, lo int) *Term {
	if a.W == 0 || hi < lo || hi >= a.W || lo < 0 {
		panic(fmt.Sprintf("smt: Extract [%d:%d] of width %d", hi, lo, a.W))
	}
	if lo == 0 && hi == a.W-1 {
		return a
	}
	w := hi - lo + 1
	if a.IsConst() {
		return c.BV(a.Val>>uint(lo), w)
	}
	switch a.Op {
	case OpExtract:
		return c.Extract(a.Args[0], a.Lo+hi, a.Lo+lo)
	case OpConcat:
		h, l := a.Args[0], a.Args[1]
		if hi < l.W {
			return c.Extract(l, hi, lo)
		}
		if lo >= l.W {
			return c.Extract(h, hi-l.W, lo-l.W)
		}
		return c.Concat(c.Extract(h, hi-l.W, 0), c.Extract(l, l.W-1, lo))
	case OpZExt:
		in := a.Args[0]
		if hi < in.W {
			return c.Extract(in, hi, lo)
		}
		if lo >= in.W {
			return c.BV(0, w)
		}
		return c.ZExt(c.Extract(in, in.W-1, lo), w)
	case OpSExt:
		in := a.Args[0]
		if hi < in.W {
			return c.Extract(in, hi, lo)
		}
	}
	return c.mk(&Term{Op: OpExtract, W: w, Args: []*Term{a}, Hi: hi, Lo: lo})
}

func (c *Ctx) Concat(hi, lo *Term) *Term {
	if hi.W == 0 || lo.W == 0 || hi.W+lo.W > 64 {
		panic(fmt.Sprintf("smt: Concat widths %d %d", hi.W, lo.W))
	}
	if hi.IsConst() && lo.IsConst() {
		return c.BV(hi.Val<<uint(lo.W)|lo.Val, hi.W+lo.W)
	}
	if hi.IsConst() && hi.Val == 0 {
		return c.ZExt(lo, hi.W+lo.W)
	}
	// adjacent extracts of the same term fuse back
	if hi.Op == OpExtract && lo.Op == OpExtract && hi.Args[0] == lo.Args[0] && hi.Lo == lo.Hi+1 {
		return c.Extract(hi.Args[0], hi.Hi, lo.Lo)
	}
	// concat(x, concat(y,z)) with x,y adjacent extracts
	if lo.Op == OpConcat && hi.Op == OpExtract {
		y := lo.Args[0]
		if y.Op == OpExtract && y.Args[0] == hi.Args[0] && hi.Lo == y.Hi+1 {
			return c.Concat(c.Extract(hi.Args[0], hi.Hi, y.Lo), lo.Args[1])
		}
	}
	return c.mk(&Term{Op: OpConcat, W: hi.W + lo.W, Args: []*Term{hi, lo}})
}

func (c *Ctx) ZExt(a *Term, w int) *Term {
	if a.W == 0 || w < a.W {
		panic(fmt.Sprintf("smt: ZExt %d -> %d", a.W, w))
	}
	if w == a.W {
		return a
	}
	if a.IsConst() {
		return c.BV(a.Val, w)
	}
	if a.Op == OpZExt {
		return c.ZExt(a.Args[0], w)
	}
	return c.mk(&Term{Op: OpZExt, W: w, Args: []*Term{a}})
}

func (c *Ctx) SExt(a *Term, w int) *Term {
	if a.W == 0 || w < a.W {
		panic(fmt.Sprintf("smt: SExt %d -> %d", a.W, w))
	}
	if w == a.W {
		return a
	}
	if a.IsConst() {
		return c.BV(uint64(signExt(a.Val, a.W)), w)
	}
	return c.mk(&Term{Op: OpSExt, W: w, Args: []*Term{a}})
}

// Resize converts a to width w, truncating or extending (signed decides how).
func (c *Ctx) Resize(a *Term, w int, signed bool) *Term {
	switch {
	case w == a.W:
		return a
	case w < a.W:
		return c.Extract(a, w-1, 0)
	case signed:
		return c.SExt(a, w)
	default:
		return c.ZExt(a, w)
	}
}

// Eval evaluates t under the model (variables absent from the model are 0).
func Eval(t *Term, model map[string]uint64) uint64 {
	memo := map[*Term]uint64{}
	var ev func(t *Term) uint64
	ev = func(t *Term) uint64 {
		if v, ok := memo[t]; ok {
			return v
		}
		var r uint64
		b2u := func(b bool) uint64 {
			if b {
				return 1
			}
			return 0
		}
		switch t.Op {
		case OpConst:
			r = t.Val
		case OpVar:
			r = model[t.Name] & maskB(t.W)
		case OpNot:
			r = 1 - ev(t.Args[0])
		case OpAnd:
			r = 1
			for _, a := range t.Args {
				if ev(a) == 0 {
					r = 0
					break
				}
			}
		case OpOr:
			r = 0
			for _, a := range t.Args {
				if ev(a) == 1 {
					r = 1
					break
				}
			}
		case OpIte:
			if ev(t.Args[0]) == 1 {
				r = ev(t.Args[1])
			} else {
				r = ev(t.Args[2])
			}
		case OpEq:
			r = b2u(ev(t.Args[0]) == ev(t.Args[1]))
		case OpBvNot:
			r = ^ev(t.Args[0]) & mask(t.W)
		case OpNeg:
			r = -ev(t.Args[0]) & mask(t.W)
		case OpExtract:
			r = (ev(t.Args[0]) >> uint(t.Lo)) & mask(t.W)
		case OpConcat:
			r = ev(t.Args[0])<<uint(t.Args[1].W) | ev(t.Args[1])
		case OpZExt:
			r = ev(t.Args[0])
		case OpSExt:
			r = uint64(signExt(ev(t.Args[0]), t.Args[0].W)) & mask(t.W)
		case OpUlt, OpUle, OpSlt, OpSle:
			r = b2u(evalCmp(t.Op, t.Args[0].W, ev(t.Args[0]), ev(t.Args[1])))
		default:
			r = evalBin(t.Op, t.W, ev(t.Args[0]), ev(t.Args[1]))
		}
		memo[t] = r
		return r
	}
	return ev(t)
}

func maskB(w int) uint64 {
	if w == 0 {
		return 1
	}
	return mask(w)
}

// SortString returns the SMT-LIB sort of t.
func (t *Term) SortString() string {
	if t.W == 0 {
		return "Bool"
	}
	return fmt.Sprintf("(_ BitVec %d)", t.W)
}

func bvLit(v uint64, w int) string {
	if w%4 == 0 {
		return fmt.Sprintf("#x%0*x", w/4, v)
	}
	return fmt.Sprintf("#b%0*b", w, v)
}

// head returns the SMT-LIB expression of t with arguments rendered by ref.
func (t *Term) expr(ref func(*Term) string) string {
	switch t.Op {
	case OpConst:
		if t.W == 0 {
			if t.Val == 1 {
				return "true"
			}
			return "false"
		}
		return bvLit(t.Val, t.W)
	case OpVar:
		return t.Name
	case OpExtract:
		return fmt.Sprintf("((_ extract %d %d) %s)", t.Hi, t.Lo, ref(t.Args[0]))
	case OpZExt:
		return fmt.Sprintf("((_ zero_extend %d) %s)", t.W-t.Args[0].W, ref(t.Args[0]))
	case OpSExt:
		return fmt.Sprintf("((_ sign_extend %d) %s)", t.W-t.Args[0].W, ref(t.Args[0]))
	}
	var sb strings.Builder
	sb.WriteByte('(')
	sb.WriteString(opNames[t.Op])
	for _, a := range t.Args {
		sb.WriteByte(' ')
		sb.WriteString(ref(a))
	}
	sb.WriteByte(')')
	return sb.String()
}

// String renders t as a (possibly large) closed SMT-LIB expression; for
// diagnostics and evidence samples only.
func (t *Term) String() string {
	var ref func(*Term) string
	ref = func(x *Term) string { return x.expr(ref) }
	s := ref(t)
	if len(s) > 400 {
		return s[:400] + "…"
	}
	return s
}

// Subst rebuilds t in ctx c with every variable replaced by f(var) (f may
// return nil to keep the variable). memo must be shared across calls that use
// the same f.
func (c *Ctx) Subst(t *Term, f func(v *Term) *Term, memo map[*Term]*Term) *Term {
	if r, ok := memo[t]; ok {
		return r
	}
	var r *Term
	switch t.Op {
	case OpConst:
		r = t
	case OpVar:
		r = f(t)
		if r == nil {
			r = t
		}
	default:
		args := make([]*Term, len(t.Args))
		for i, a := range t.Args {
			args[i] = c.Subst(a, f, memo)
		}
		switch t.Op {
		case OpNot:
			r = c.Not(args[0])
		case OpAnd:
			r = c.And(args...)
		case OpOr:
			r = c.Or(args...)
		case OpIte:
			r = c.Ite(args[0], args[1], args[2])
		case OpEq:
			r = c.Eq(args[0], args[1])
		case OpBvNot:
			r = c.BvNot(args[0])
		case OpNeg:
			r = c.Neg(args[0])
		case OpExtract:
			r = c.Extract(args[0], t.Hi, t.Lo)
		case OpConcat:
			r = c.Concat(args[0], args[1])
		case OpZExt:
			r = c.ZExt(args[0], t.W)
		case OpSExt:
			r = c.SExt(args[0], t.W)
		case OpUlt, OpUle, OpSlt, OpSle:
			r = c.Cmp(t.Op, args[0], args[1])
		default:
			r = c.Bin(t.Op, args[0], args[1])
		}
	}
	memo[t] = r
	return r
}
