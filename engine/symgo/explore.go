package symgo

import (
	"fmt"
	"go/token"
	"sort"
	"sync"
	"time"

	"golang.org/x/tools/go/ssa"

	"verif/engine/smt"
)

// Job is one harness exploration.
type Job struct {
	Fn         *ssa.Function
	Cfg        Config
	Workers    int
	Solver     string // backend name
	TimeoutMS  int    // per query
	MaxPaths   int
	Deadline   time.Time
	SampleMax  int // number of ok-paths for which an input model is extracted
	StopOnViol bool
	Trace      bool
}

// PathResult is the serialisable summary of one interesting path.
type PathResult struct {
	Kind      string         `json:"kind"`
	Msg       string         `json:"msg,omitempty"`
	Assertion string         `json:"assertion,omitempty"`
	Inputs    []ReplayInput  `json:"inputs,omitempty"`
	Trail     string         `json:"trail,omitempty"`
	Reached   []string       `json:"reached,omitempty"`
	PC        string         `json:"pc,omitempty"`
	Notes     []string       `json:"notes,omitempty"`
	Choices   []int          `json:"choices,omitempty"`
	Preempts  int            `json:"preemptions,omitempty"`
}

// ReplayInput is one nondeterministic input with its concrete value.
type ReplayInput struct {
	Kind  string `json:"k"`
	Val   uint64 `json:"v,omitempty"`
	Bytes []int  `json:"b,omitempty"`
}

// Report aggregates an exploration.
type Report struct {
	Harness     string
	Paths       int
	ByKind      map[string]int
	Violations  []PathResult
	Problems    []PathResult // unsupported / budget / unknown / engine-fault (first few of each)
	Samples     []PathResult
	Reached     map[string]bool
	Asserts     int
	AssertsSym  int
	Decisions   int
	Steps       int
	Unknowns    int
	Funcs       map[string]int
	Stubs       map[string]int
	Assumes     map[string]bool
	Solver      smt.Stats
	Wall        time.Duration
	Truncated   bool // MaxPaths or deadline hit with work left
	Notes       map[string]int
	MaxDecPath  int
	IfConv      int
	Forks       map[string]int
	DistinctOK  int
	MaxPreempts    int
	PreemptedPaths int
	NontrivialOK int // ok paths that executed at least one assertion and on which the solver decided at least one branch or assertion over symbolic inputs
}

func trailString(tr []Decision) string {
	b := make([]byte, 0, len(tr))
	for _, d := range tr {
		switch d.Kind {
		case 'b':
			if d.Choice == 1 {
				b = append(b, 'T')
			} else {
				b = append(b, 'F')
			}
		case 'c':
			if d.Choice == 1 {
				b = append(b, fmt.Sprintf("=%d;", d.Val)...)
			} else {
				b = append(b, fmt.Sprintf("!%d;", d.Val)...)
			}
		case 'n':
			b = append(b, fmt.Sprintf("#%d", d.Choice)...)
		}
	}
	if len(b) > 200 {
		return string(b[:200]) + "…"
	}
	return string(b)
}

func inputsFromModel(ins []Input, model map[string]uint64) []ReplayInput {
	out := make([]ReplayInput, 0, len(ins))
	for _, in := range ins {
		ri := ReplayInput{Kind: in.Kind}
		if in.Term != nil {
			ri.Val = model[in.Term.Name]
		} else {
			ri.Bytes = make([]int, len(in.Byts))
			for i, b := range in.Byts {
				ri.Bytes[i] = int(model[b.Name])
			}
		}
		out = append(out, ri)
	}
	return out
}

// Explore runs the harness over all feasible paths within the configured bounds.
func (p *Program) Explore(job Job) *Report {
	start := time.Now()
	rep := &Report{Harness: job.Fn.String(), ByKind: map[string]int{}, Reached: map[string]bool{}, Funcs: map[string]int{}, Stubs: map[string]int{}, Assumes: map[string]bool{}, Notes: map[string]int{}}
	if job.Workers <= 0 {
		job.Workers = 1
	}
	if job.MaxPaths <= 0 {
		job.MaxPaths = 1 << 30
	}
	if job.TimeoutMS <= 0 {
		job.TimeoutMS = 30000
	}
	if job.Solver == "" {
		job.Solver = "z3"
	}

	var mu sync.Mutex
	cond := sync.NewCond(&mu)
	queue := [][]Decision{nil}
	active := 0
	started := 0
	stop := false

	worker := func() {
		solver, err := smt.NewSolver(job.Solver, job.TimeoutMS)
		if err != nil {
			mu.Lock()
			rep.Notes["solver start failed: "+err.Error()]++
			mu.Unlock()
			return
		}
		defer func() {
			mu.Lock()
			rep.Solver.Add(solver.Stats)
			mu.Unlock()
			solver.Close()
		}()
		for {
			mu.Lock()
			for len(queue) == 0 && active > 0 && !stop {
				cond.Wait()
			}
			if stop || (len(queue) == 0 && active == 0) {
				mu.Unlock()
				cond.Broadcast()
				return
			}
			if started >= job.MaxPaths || (!job.Deadline.IsZero() && time.Now().After(job.Deadline)) {
				rep.Truncated = true
				stop = true
				mu.Unlock()
				cond.Broadcast()
				return
			}
			// depth-first: take the most recent trail
			tr := queue[len(queue)-1]
			queue = queue[:len(queue)-1]
			active++
			started++
			wantSample := len(rep.Samples) < job.SampleMax
			mu.Unlock()

			out, newTrails, finalTrail := p.runPath(job, solver, tr, wantSample)

			mu.Lock()
			active--
			queue = append(queue, newTrails...)
			rep.Paths++
			rep.ByKind[out.Kind]++
			rep.Asserts += out.Asserts
			rep.AssertsSym += out.AssertsSym
			rep.Decisions += out.Decisions
			if out.Decisions > rep.MaxDecPath {
				rep.MaxDecPath = out.Decisions
			}
			rep.Steps += out.Steps
			rep.Unknowns += out.Unknowns
			rep.IfConv += out.IfConv
			for k, v := range out.Forks {
				if rep.Forks == nil {
					rep.Forks = map[string]int{}
				}
				rep.Forks[k] += v
			}
			for k, v := range out.Funcs {
				rep.Funcs[k] += v
			}
			for k, v := range out.Stubs {
				rep.Stubs[k] += v
			}
			for _, a := range out.Assumes {
				rep.Assumes[a] = true
			}
			for _, n := range out.Notes {
				rep.Notes[n]++
			}
			if out.Kind != "infeasible" {
				for k := range out.Reached {
					rep.Reached[k] = true
				}
			}
			pr := PathResult{Kind: out.Kind, Msg: out.Msg, Trail: trailString(finalTrail), Reached: sortedKeys(out.Reached), PC: out.PCSample, Notes: out.Notes, Choices: out.Choices, Preempts: out.Preempts}
			if out.Preempts > rep.MaxPreempts {
				rep.MaxPreempts = out.Preempts
			}
			if out.Preempts > 0 {
				rep.PreemptedPaths++
			}
			switch out.Kind {
			case "ok":
				rep.DistinctOK++
				if out.Asserts > 0 && (out.AssertsSym > 0 || out.Decisions > 0) {
					rep.NontrivialOK++
				}
				if out.Model != nil && len(rep.Samples) < job.SampleMax {
					pr.Inputs = inputsFromModel(out.Inputs, out.Model)
					rep.Samples = append(rep.Samples, pr)
				}
			case "infeasible":
			case "violation", "panic", "fatal", "deadlock":
				if out.Violation != nil {
					pr.Assertion = out.Violation.Name
					pr.Inputs = inputsFromModel(out.Inputs, out.Violation.Model)
				} else if out.Model != nil {
					pr.Inputs = inputsFromModel(out.Inputs, out.Model)
					pr.Assertion = "no-" + out.Kind
				}
				if len(rep.Violations) < 50 {
					rep.Violations = append(rep.Violations, pr)
				}
				if job.StopOnViol {
					stop = true
				}
			default:
				n := 0
				for _, q := range rep.Problems {
					if q.Kind == out.Kind {
						n++
					}
				}
				if n < 5 {
					rep.Problems = append(rep.Problems, pr)
				}
			}
			mu.Unlock()
			cond.Broadcast()
		}
	}
	var wg sync.WaitGroup
	for i := 0; i < job.Workers; i++ {
		wg.Add(1)
		go func() { defer wg.Done(); worker() }()
	}
	wg.Wait()
	if len(queue) > 0 {
		rep.Truncated = true
	}
	sort.Slice(rep.Violations, func(i, j int) bool { return rep.Violations[i].Trail < rep.Violations[j].Trail })
	rep.Wall = time.Since(start)
	return rep
}

// runPath executes the harness once along the given trail.
func (p *Program) runPath(job Job, solver *smt.Solver, trail []Decision, wantModel bool) (*Outcome, [][]Decision, []Decision) {
	return p.runPathWith(job, solver, trail, wantModel, nil)
}

// ReplayConcrete re-executes the harness without a solver: every input takes
// the concrete value of the counterexample and every engine choice (vrtChoose,
// map order, schedule) the recorded one. The interpreter then runs the real SSA
// on ordinary Go values; an assertion that fails, a panic or a deadlock here
// confirms the counterexample independently of the symbolic machinery.
func (p *Program) ReplayConcrete(job Job, inputs []ReplayInput, choices []int) *Outcome {
	out, _, _ := p.runPathWith(job, nil, nil, false, &concreteRun{inputs: inputs, choices: choices})
	return out
}

func (p *Program) runPathWith(job Job, solver *smt.Solver, trail []Decision, wantModel bool, conc *concreteRun) (*Outcome, [][]Decision, []Decision) {
	if solver != nil {
		solver.Reset()
	}
	out := &Outcome{Reached: map[string]bool{}, Funcs: map[string]int{}, Stubs: map[string]int{}, Forks: map[string]int{}}
	m := &Machine{
		prog: p, cfg: job.Cfg, ctx: smt.NewCtx(), solver: solver,
		trail: append([]Decision(nil), trail...), globals: map[*ssa.Global]*value{}, out: out,
		syncMaps: map[*value]*omap{}, sideState: map[*value]any{},
		done: make(chan any, 1), killed: make(chan struct{}),
	}
	m.conc = conc
	if job.Cfg.Params["race"] > 0 {
		m.race = newRaceState()
	}
	if pb := job.Cfg.Params["preempt"]; pb > 0 {
		m.preemptMode = true
		m.preemptLeft = int(pb)
		m.nextChoice = job.Cfg.Params["nextchoice"] > 0
	}
	m.cfg.Trace = job.Trace
	mainG := &goroutine{id: 0, wake: make(chan struct{}, 1), what: "main"}
	m.gs = []*goroutine{mainG}
	m.mainG = mainG
	m.cur = mainG
	go func() {
		var res any
		func() {
			defer func() { res = recover() }()
			if init := job.Fn.Pkg.Func("init"); init != nil {
				m.call(nil, token.NoPos, init, nil)
			}
			m.call(nil, token.NoPos, job.Fn, nil)
		}()
		mainG.done = true
		m.finish(resultWrap{res})
	}()
	r := <-m.done
	close(m.killed)
	if rw, ok := r.(resultWrap); ok {
		r = rw.v
	}
	out.Kind = "ok"
	switch r := r.(type) {
	case nil:
	case pathEnd:
		out.Kind = r.kind
		out.Msg = r.msg
	case targetPanic:
		out.Kind = "panic"
		out.Msg = toString(r.v)
		if iv, ok := r.v.(iface); ok && iv.t != nil {
			out.Msg = iv.t.String() + ": " + toString(iv.v)
		}
	case unsupported:
		out.Kind = "unsupported"
		out.Msg = r.what
	case engineFault:
		out.Kind = "engine-fault"
		out.Msg = r.msg
	default:
		out.Kind = "engine-fault"
		out.Msg = fmt.Sprintf("%T: %v", r, r)
	}
	out.Inputs = m.inputs
	out.Decisions = len(m.trail)
	out.Steps = m.steps
	if len(m.pc) > 0 {
		out.PCSample = m.ctx.And(m.pc...).String()
	}
	needModel := (out.Kind == "ok" && wantModel) || ((out.Kind == "panic" || out.Kind == "fatal" || out.Kind == "deadlock") && out.Violation == nil)
	if conc != nil {
		needModel = false
	}
	if needModel {
		res, model := solver.Check(nil, m.inputVars())
		if res == smt.Sat {
			if model == nil {
				model = map[string]uint64{}
			}
			out.Model = model
		} else if res == smt.Unsat && out.Kind != "ok" {
			out.Kind = "infeasible"
		}
	}
	return out, m.newTrails, m.trail
}

type resultWrap struct{ v any }
