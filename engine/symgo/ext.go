package symgo

import (
	"fmt"
	"go/types"
	"net"
	"unicode"
	"regexp"
	"sort"
	"strings"
	"unsafe"

	"golang.org/x/tools/go/ssa"

	"verif/engine/smt"
)

func registerExternals(p *Program) {
	registerReflect(p)
	registerVrt(p)
	registerSync(p)
	registerTime(p)
	registerFmtErrors(p)
	registerMisc(p)
}

// ---------------------------------------------------------------------------
// harness intrinsics (vrt*), matched by bare function name in any target package

func registerVrt(p *Program) {
	intr := map[string]externalFn{}
	scalar := func(name string, k types.BasicKind) {
		intr["vrt"+name] = func(fr *frame, a []value) value { return fr.m.newInput(strings.ToLower(name), k) }
	}
	scalar("Bool", types.Bool)
	scalar("Int", types.Int)
	scalar("Int8", types.Int8)
	scalar("Int16", types.Int16)
	scalar("Int32", types.Int32)
	scalar("Int64", types.Int64)
	scalar("Uint", types.Uint)
	scalar("Uint8", types.Uint8)
	scalar("Uint16", types.Uint16)
	scalar("Uint32", types.Uint32)
	scalar("Uint64", types.Uint64)
	intr["vrtBytes"] = func(fr *frame, a []value) value {
		n := int(asInt64(fr.m.concretize(a[0], "vrtBytes-len")))
		if n == 0 {
			fr.m.inputs = append(fr.m.inputs, Input{Name: fmt.Sprintf("in%d_bytes", len(fr.m.inputs)), Kind: "bytes"})
			return []value{}
		}
		return fr.m.newInputBytes("bytes", n)
	}
	intr["vrtString"] = func(fr *frame, a []value) value {
		n := int(asInt64(fr.m.concretize(a[0], "vrtString-len")))
		if n == 0 {
			fr.m.inputs = append(fr.m.inputs, Input{Name: fmt.Sprintf("in%d_string", len(fr.m.inputs)), Kind: "string"})
			return ""
		}
		return mkString(fr.m.newInputBytes("string", n))
	}
	// vrtChoose(n): a nondeterministic int in [0,n), concretised at once
	intr["vrtChoose"] = func(fr *frame, a []value) value {
		m := fr.m
		n := int(asInt64(m.concretize(a[0], "vrtChoose-n")))
		vIn := m.newInput("int", types.Int)
		v, _ := vIn.(symv)
		if n <= 0 {
			panic(pathEnd{"infeasible", "vrtChoose(0)"})
		}
		i := m.choose(n, "vrtChoose")
		if m.conc != nil {
			return i
		}
		if m.model != nil {
			m.model[v.t.Name] = uint64(i) // v is fresh: the patched model still satisfies pc
		}
		m.assume(m.ctx.Eq(v.t, m.ctx.BV(uint64(i), 64)))
		return i
	}
	intr["vrtAssume"] = func(fr *frame, a []value) value {
		m := fr.m
		if b, ok := a[0].(bool); ok {
			if !b {
				panic(pathEnd{"infeasible", "assumption false"})
			}
			return nil
		}
		t := a[0].(symv).t
		switch m.check(t) {
		case smt.Unsat:
			panic(pathEnd{"infeasible", "assumption unsatisfiable"})
		case smt.Unknown:
			m.note("solver unknown on assumption; kept")
		}
		m.assume(t)
		return nil
	}
	intr["vrtAssert"] = func(fr *frame, a []value) value {
		name := concreteString(a[1])
		fr.m.assertV(a[0], name, "assertion "+name+" can fail"+callerInfo(fr.caller))
		return nil
	}
	intr["vrtReach"] = func(fr *frame, a []value) value {
		fr.m.out.Reached[concreteString(a[0])] = true
		return nil
	}
	intr["vrtNote"] = func(fr *frame, a []value) value {
		fr.m.note(concreteString(a[0]))
		return nil
	}
	intr["vrtParam"] = func(fr *frame, a []value) value {
		name := concreteString(a[0])
		if v, ok := fr.m.cfg.Params[name]; ok {
			return int(v)
		}
		return a[1]
	}
	intr["vrtMapOrderAll"] = func(fr *frame, a []value) value {
		fr.m.mapOrderAll = a[0].(bool)
		return nil
	}
	intr["vrtYield"] = func(fr *frame, a []value) value {
		fr.m.yield()
		return nil
	}
	intr["vrtYieldOnce"] = func(fr *frame, a []value) value {
		fr.m.yieldOnce()
		return nil
	}
	intr["vrtFireTimers"] = func(fr *frame, a []value) value {
		return fr.m.fireTimers()
	}
	intr["vrtAdvance"] = func(fr *frame, a []value) value { return fr.m.advance(a[0]) }
	intr["vrtSlept"] = func(fr *frame, a []value) value { return len(fr.m.sleeps) > 0 }
	intr["vrtSleepReset"] = func(fr *frame, a []value) value { fr.m.sleeps = nil; return nil }
	intr["vrtSymbolic"] = func(fr *frame, a []value) value { return true }
	intr["vrtConcretizeInt"] = func(fr *frame, a []value) value { return fr.m.concretize(a[0], "vrtConcretize") }
	intr["vrtAllocBudget"] = func(fr *frame, a []value) value {
		fr.m.cfg.AllocBudget = asInt64(a[0])
		return nil
	}
	intr["vrtAssumeNote"] = func(fr *frame, a []value) value {
		fr.m.out.Assumes = append(fr.m.out.Assumes, concreteString(a[0]))
		return nil
	}
	setup := func(fr *frame) *segState {
		if fr.m.tsSetup == nil {
			panic(unsupported{"tsgen registration intrinsic outside a scenario"})
		}
		return fr.m.tsSetup
	}
	ptrArg := func(m *Machine, v value) *value {
		it, ok := v.(iface)
		if !ok {
			panic(unsupported{"vrtShared: not an interface value"})
		}
		p, ok := it.v.(*value)
		if !ok || p == nil {
			panic(unsupported{fmt.Sprintf("vrtShared: argument is not a non-nil pointer (%T)", it.v)})
		}
		return p
	}
	intr["vrtShared"] = func(fr *frame, a []value) value {
		s := setup(fr)
		for i, x := range a[0].([]value) {
			s.registerCell(fr.m, ptrArg(fr.m, x), fmt.Sprintf("sh%d", len(s.cells)+i))
		}
		return nil
	}
	intr["vrtSharedSlice"] = func(fr *frame, a []value) value {
		s := setup(fr)
		sl, ok := a[0].(iface).v.([]value)
		if !ok {
			panic(unsupported{"vrtSharedSlice: not a slice"})
		}
		for i := range sl {
			s.registerCell(fr.m, &sl[i], fmt.Sprintf("sl%d_%d", len(s.cells), i))
		}
		return nil
	}
	intr["vrtSharedSymbolic"] = func(fr *frame, a []value) value {
		s := setup(fr)
		for i, x := range a[0].([]value) {
			p := ptrArg(fr.m, x)
			s.registerCell(fr.m, p, fmt.Sprintf("sym%d", len(s.cells)+i))
			if ci, ok := s.cellOf[p]; ok {
				ci.symInit = true
			}
		}
		return nil
	}
	intr["vrtRacy"] = func(fr *frame, a []value) value {
		s := setup(fr)
		for _, x := range a[0].([]value) {
			p := ptrArg(fr.m, x)
			s.racy[p] = true
			s.registerCell(fr.m, p, fmt.Sprintf("racy%d", len(s.cells)))
		}
		return nil
	}
	intr["vrtTokens"] = func(fr *frame, a []value) value {
		s := setup(fr)
		for _, x := range a[0].([]value) {
			// a slice passed as `any` is stored in cells as the bare slice
			if it, ok := x.(iface); ok && it.t != nil {
				if _, isSlice := it.t.Underlying().(*types.Slice); isSlice {
					x = it.v
				}
			}
			found := false
			for _, tv := range s.tokens {
				if eq, ok := plainEqualDeep(tv, x); ok && eq {
					found = true
				}
			}
			if !found {
				s.tokens = append(s.tokens, x)
			}
		}
		return nil
	}
	intr["vrtThread"] = func(fr *frame, a []value) value {
		s := setup(fr)
		s.threads = append(s.threads, tsThreadDecl{name: concreteString(a[0]), fn: a[1]})
		return nil
	}
	intr["vrtSafety"] = func(fr *frame, a []value) value {
		s := setup(fr)
		s.safety = append(s.safety, tsProp{name: concreteString(a[0]), fn: a[1]})
		return nil
	}
	intr["vrtFinal"] = func(fr *frame, a []value) value {
		s := setup(fr)
		s.final = append(s.final, tsProp{name: concreteString(a[0]), fn: a[1]})
		return nil
	}
	intr["vrtRedirect"] = func(fr *frame, a []value) value {
		// also usable by Engine-A harnesses (environment stubs such as net.Dial);
		// natively it is a no-op, so such jobs confirm counterexamples in the
		// interpreter (spec: "confirm": "interpreter")
		if fr.m.redirects == nil {
			fr.m.redirects = map[string]value{}
		}
		fn := a[1].(iface).v
		fr.m.redirects[concreteString(a[0])] = fn
		return nil
	}
	intr["vrtVisible"] = func(fr *frame, a []value) value { return nil }
	intr["vrtStepLimit"] = func(fr *frame, a []value) value {
		n := int(asInt64(a[0]))
		if n <= 0 {
			fr.m.stepLimit = 0
		} else {
			fr.m.stepLimit = fr.m.steps + n
		}
		return nil
	}
	intr["vrtRaceOff"] = func(fr *frame, a []value) value { fr.m.racePaused = true; return nil }
	intr["vrtRaceOn"] = func(fr *frame, a []value) value { fr.m.racePaused = false; return nil }
	intr["vrtSharedChan"] = func(fr *frame, a []value) value {
		s := setup(fr)
		ch, ok := a[0].(iface).v.(*vchan)
		if !ok || ch == nil {
			panic(unsupported{"vrtSharedChan: not a channel"})
		}
		ch.closedCell = ch.closed
		s.registerCell(fr.m, &ch.closedCell, fmt.Sprintf("chan%d_closed", len(s.cells)))
		ch.shared = true
		return nil
	}
	p.prefixExternals = append(p.prefixExternals, prefixExt{prefix: p.TargetMod, fn: func(name string) externalFn {
		i := strings.LastIndex(name, ".")
		if i < 0 {
			return nil
		}
		return intr[name[i+1:]]
	}})
}

func concreteString(v value) string {
	if s, ok := v.(string); ok {
		return s
	}
	panic(unsupported{"symbolic string where a concrete one is needed"})
}

// ---------------------------------------------------------------------------
// sync, sync/atomic

// firstScalarCell finds the first integer cell inside a (possibly nested) struct.
func firstScalarCell(p *value) *value {
	switch s := (*p).(type) {
	case structure:
		for i := range s {
			if c := firstScalarCell(&s[i]); c != nil {
				return c
			}
		}
		return nil
	case array:
		return nil
	}
	if _, ok := kindOf(*p); ok {
		return p
	}
	return nil
}

type mutexState struct {
	writer  bool
	readers int
	owner   *goroutine
}

func (m *Machine) mutex(p *value) *mutexState {
	if p == nil {
		m.rtPanic("invalid memory address or nil pointer dereference (nil mutex)")
	}
	if s, ok := m.sideState[p]; ok {
		return s.(*mutexState)
	}
	s := &mutexState{}
	m.sideState[p] = s
	return s
}

type wgState struct{ n int64 }
type onceState struct{ done bool }
type timerState struct{ t *vtimer }

func registerSync(p *Program) {
	ext := p.externals
	lock := func(fr *frame, a []value) value {
		m := fr.m
		if m.seg != nil {
			cell := firstScalarCell(m.nonNil(a[0]))
			if cell == nil {
				panic(unsupported{"mutex without a scalar cell"})
			}
			free := m.equalsV(nil, *cell, zeroLike(*cell))
			if !m.decide(free, "mutex-free") {
				panic(blockedSignal{"Mutex.Lock"})
			}
			*cell = oneLike(*cell)
			m.seg.holding++
			return nil
		}
		s := m.mutex(a[0].(*value))
		if s.writer && s.owner == m.cur {
			panic(pathEnd{"deadlock", "self-deadlock: goroutine locks a sync.Mutex it already holds" + callerInfo(fr.caller)})
		}
		m.block("Mutex.Lock", func() bool { return !s.writer && s.readers == 0 })
		s.writer = true
		s.owner = m.cur
		return nil
	}
	unlock := func(fr *frame, a []value) value {
		m := fr.m
		if m.seg != nil {
			cell := firstScalarCell(m.nonNil(a[0]))
			held := m.notV(m.equalsV(nil, *cell, zeroLike(*cell)))
			if !m.decide(held, "mutex-held") {
				panic(pathEnd{"fatal", "sync: unlock of unlocked mutex"})
			}
			*cell = zeroLike(*cell)
			if m.seg.holding > 0 {
				m.seg.holding--
			}
			return nil
		}
		s := m.mutex(a[0].(*value))
		if !s.writer {
			panic(pathEnd{"fatal", "sync: unlock of unlocked mutex"})
		}
		s.writer = false
		s.owner = nil
		return nil
	}
	tryLock := func(fr *frame, a []value) value {
		s := fr.m.mutex(a[0].(*value))
		if s.writer || s.readers > 0 {
			return false
		}
		s.writer = true
		s.owner = fr.m.cur
		return true
	}
	ext["(*sync.Mutex).Lock"] = lock
	ext["(*sync.Mutex).Unlock"] = unlock
	ext["(*sync.Mutex).TryLock"] = tryLock
	ext["(*sync.RWMutex).Lock"] = lock
	ext["(*sync.RWMutex).Unlock"] = unlock
	ext["(*sync.RWMutex).TryLock"] = tryLock
	ext["(*sync.RWMutex).RLock"] = func(fr *frame, a []value) value {
		m := fr.m
		s := m.mutex(a[0].(*value))
		if s.writer && s.owner == m.cur {
			panic(pathEnd{"deadlock", "self-deadlock: RLock while holding the write lock" + callerInfo(fr.caller)})
		}
		m.block("RWMutex.RLock", func() bool { return !s.writer })
		s.readers++
		return nil
	}
	ext["(*sync.RWMutex).RUnlock"] = func(fr *frame, a []value) value {
		s := fr.m.mutex(a[0].(*value))
		if s.readers <= 0 {
			panic(pathEnd{"fatal", "sync: RUnlock of unlocked RWMutex"})
		}
		s.readers--
		return nil
	}
	ext["(*sync.RWMutex).RLocker"] = func(fr *frame, a []value) value { panic(unsupported{"RWMutex.RLocker"}) }

	wg := func(m *Machine, p *value) *wgState {
		if s, ok := m.sideState[p]; ok {
			return s.(*wgState)
		}
		s := &wgState{}
		m.sideState[p] = s
		return s
	}
	ext["(*sync.WaitGroup).Add"] = func(fr *frame, a []value) value {
		s := wg(fr.m, a[0].(*value))
		s.n += asInt64(fr.m.concretize(a[1], "wg-add"))
		if s.n < 0 {
			panic(targetPanic{fr.m.plainErr("sync: negative WaitGroup counter")})
		}
		return nil
	}
	ext["(*sync.WaitGroup).Done"] = func(fr *frame, a []value) value {
		s := wg(fr.m, a[0].(*value))
		s.n--
		if s.n < 0 {
			panic(targetPanic{fr.m.plainErr("sync: negative WaitGroup counter")})
		}
		return nil
	}
	ext["(*sync.WaitGroup).Wait"] = func(fr *frame, a []value) value {
		s := wg(fr.m, a[0].(*value))
		fr.m.block("WaitGroup.Wait", func() bool { return s.n == 0 })
		return nil
	}
	ext["(*sync.WaitGroup).Go"] = func(fr *frame, a []value) value {
		m := fr.m
		s := wg(m, a[0].(*value))
		s.n++
		f := a[1]
		m.spawn(&hostFunc{name: "wg.Go", f: func(m *Machine, c *frame, _ []value) value {
			defer func() { s.n-- }()
			m.call(c, 0, f, nil)
			return nil
		}}, nil, 0)
		return nil
	}
	ext["(*sync.Once).Do"] = func(fr *frame, a []value) value {
		m := fr.m
		p := a[0].(*value)
		var s *onceState
		if x, ok := m.sideState[p]; ok {
			s = x.(*onceState)
		} else {
			s = &onceState{}
			m.sideState[p] = s
		}
		if !s.done {
			s.done = true
			m.call(fr, 0, a[1], nil)
		}
		return nil
	}
	// sync.Pool modelled as LIFO reuse: Get returns the most recently Put
	// object if there is one (the adversarial choice for stale-state bugs; the
	// real pool may also drop objects, which only makes New() run).
	type poolState struct{ items []value }
	pool := func(m *Machine, p *value) *poolState {
		if s, ok := m.sideState[p]; ok {
			return s.(*poolState)
		}
		s := &poolState{}
		m.sideState[p] = s
		return s
	}
	ext["(*sync.Pool).Get"] = func(fr *frame, a []value) value {
		p := fr.m.nonNil(a[0])
		ps := pool(fr.m, p)
		if n := len(ps.items); n > 0 {
			it := ps.items[n-1]
			ps.items = ps.items[:n-1]
			return it
		}
		st := (*p).(structure)
		for i := len(st) - 1; i >= 0; i-- {
			switch f := st[i].(type) {
			case *ssa.Function:
				if f != nil {
					return fr.m.call(fr, 0, f, nil)
				}
			case *closure:
				return fr.m.call(fr, 0, f, nil)
			}
		}
		return iface{}
	}
	ext["(*sync.Pool).Put"] = func(fr *frame, a []value) value {
		if it, ok := a[1].(iface); ok && it.t == nil {
			return nil
		}
		ps := pool(fr.m, fr.m.nonNil(a[0]))
		ps.items = append(ps.items, a[1])
		return nil
	}

	// sync.Map as an association list in a side table
	smap := func(m *Machine, p *value) *omap {
		if o, ok := m.syncMaps[p]; ok {
			return o
		}
		o := newOmap(types.NewInterfaceType(nil, nil))
		m.syncMaps[p] = o
		return o
	}
	ext["(*sync.Map).Load"] = func(fr *frame, a []value) value {
		v, ok := fr.m.omapGet(smap(fr.m, a[0].(*value)), a[1])
		if !ok {
			return tuple{iface{}, false}
		}
		return tuple{v, true}
	}
	ext["(*sync.Map).Store"] = func(fr *frame, a []value) value {
		fr.m.omapSet(smap(fr.m, a[0].(*value)), a[1], a[2])
		return nil
	}
	ext["(*sync.Map).LoadOrStore"] = func(fr *frame, a []value) value {
		o := smap(fr.m, a[0].(*value))
		if v, ok := fr.m.omapGet(o, a[1]); ok {
			return tuple{v, true}
		}
		fr.m.omapSet(o, a[1], a[2])
		return tuple{a[2], false}
	}
	ext["(*sync.Map).LoadAndDelete"] = func(fr *frame, a []value) value {
		o := smap(fr.m, a[0].(*value))
		if v, ok := fr.m.omapGet(o, a[1]); ok {
			fr.m.omapDelete(o, a[1])
			return tuple{v, true}
		}
		return tuple{iface{}, false}
	}
	ext["(*sync.Map).Delete"] = func(fr *frame, a []value) value {
		fr.m.omapDelete(smap(fr.m, a[0].(*value)), a[1])
		return nil
	}
	ext["(*sync.Map).Swap"] = func(fr *frame, a []value) value {
		o := smap(fr.m, a[0].(*value))
		v, ok := fr.m.omapGet(o, a[1])
		fr.m.omapSet(o, a[1], a[2])
		if !ok {
			return tuple{iface{}, false}
		}
		return tuple{v, true}
	}
	ext["(*sync.Map).CompareAndSwap"] = func(fr *frame, a []value) value {
		o := smap(fr.m, a[0].(*value))
		v, ok := fr.m.omapGet(o, a[1])
		if ok && fr.m.decide(fr.m.equalsV(nil, v, a[2]), "syncmap-cas") {
			fr.m.omapSet(o, a[1], a[3])
			return true
		}
		return false
	}
	ext["(*sync.Map).CompareAndDelete"] = func(fr *frame, a []value) value {
		o := smap(fr.m, a[0].(*value))
		v, ok := fr.m.omapGet(o, a[1])
		if ok && fr.m.decide(fr.m.equalsV(nil, v, a[2]), "syncmap-cad") {
			fr.m.omapDelete(o, a[1])
			return true
		}
		return false
	}
	ext["(*sync.Map).Range"] = func(fr *frame, a []value) value {
		o := smap(fr.m, a[0].(*value))
		n := len(o.keys)
		for i := 0; i < n; i++ {
			if !o.alive[i] {
				continue
			}
			r := fr.m.call(fr, 0, a[1], []value{o.keys[i], o.vals[i]})
			if !fr.m.decide(r, "syncmap-range") {
				break
			}
		}
		return nil
	}
	ext["(*sync.Map).Clear"] = func(fr *frame, a []value) value {
		o := smap(fr.m, a[0].(*value))
		for i := range o.alive {
			o.alive[i] = false
		}
		o.n = 0
		return nil
	}

	// sync/atomic functions on plain cells
	for _, ty := range []string{"Int32", "Int64", "Uint32", "Uint64", "Uintptr"} {
		ext["sync/atomic.Load"+ty] = func(fr *frame, a []value) value { return *fr.m.nonNil(a[0]) }
		ext["sync/atomic.Store"+ty] = func(fr *frame, a []value) value { *fr.m.nonNil(a[0]) = a[1]; return nil }
		ext["sync/atomic.Add"+ty] = func(fr *frame, a []value) value {
			p := fr.m.nonNil(a[0])
			*p = fr.m.binop(tokenADD, nil, *p, a[1])
			return *p
		}
		ext["sync/atomic.Swap"+ty] = func(fr *frame, a []value) value {
			p := fr.m.nonNil(a[0])
			old := *p
			*p = a[1]
			return old
		}
		ext["sync/atomic.CompareAndSwap"+ty] = func(fr *frame, a []value) value {
			p := fr.m.nonNil(a[0])
			if fr.m.decide(fr.m.equalsV(nil, *p, a[1]), "atomic-cas") {
				*p = a[2]
				return true
			}
			return false
		}
		ext["sync/atomic.And"+ty] = func(fr *frame, a []value) value {
			p := fr.m.nonNil(a[0])
			old := *p
			*p = fr.m.binop(tokenAND, nil, *p, a[1])
			return old
		}
		ext["sync/atomic.Or"+ty] = func(fr *frame, a []value) value {
			p := fr.m.nonNil(a[0])
			old := *p
			*p = fr.m.binop(tokenOR, nil, *p, a[1])
			return old
		}
	}
	ext["sync/atomic.LoadPointer"] = func(fr *frame, a []value) value { return *fr.m.nonNil(a[0]) }
	ext["sync/atomic.StorePointer"] = func(fr *frame, a []value) value { *fr.m.nonNil(a[0]) = a[1]; return nil }
	ext["sync/atomic.SwapPointer"] = func(fr *frame, a []value) value {
		p := fr.m.nonNil(a[0])
		old := *p
		*p = a[1]
		return old
	}
	ext["sync/atomic.CompareAndSwapPointer"] = func(fr *frame, a []value) value {
		p := fr.m.nonNil(a[0])
		if (*p).(unsafe.Pointer) == a[1].(unsafe.Pointer) {
			*p = a[2]
			return true
		}
		return false
	}
	// atomic.Value: keep the interface value in field 0
	ext["(*sync/atomic.Value).Load"] = func(fr *frame, a []value) value {
		return (*fr.m.nonNil(a[0])).(structure)[0]
	}
	ext["(*sync/atomic.Value).Store"] = func(fr *frame, a []value) value {
		if a[1].(iface).t == nil {
			panic(targetPanic{fr.m.plainErr("sync/atomic: store of nil value into Value")})
		}
		(*fr.m.nonNil(a[0])).(structure)[0] = a[1]
		return nil
	}
	ext["(*sync/atomic.Value).Swap"] = func(fr *frame, a []value) value {
		s := (*fr.m.nonNil(a[0])).(structure)
		old := s[0]
		s[0] = a[1]
		return old
	}
	ext["(*sync/atomic.Value).CompareAndSwap"] = func(fr *frame, a []value) value {
		s := (*fr.m.nonNil(a[0])).(structure)
		if fr.m.decide(fr.m.equalsV(nil, s[0], a[1]), "atomic-value-cas") {
			s[0] = a[2]
			return true
		}
		return false
	}
}

func zeroLike(v value) value {
	k, _ := kindOf(v)
	return fromBits(k, 0)
}

func oneLike(v value) value {
	k, _ := kindOf(v)
	return fromBits(k, 1)
}

// segAtomicCheck: atomic operations in segment mode must target registered cells.
func (m *Machine) segAtomicCheck(p *value) {
	if m.seg != nil && !m.seg.concrete {
		if _, ok := m.seg.cellOf[p]; !ok && !m.seg.fresh[p] {
			panic(pathEnd{"escape", "atomic operation on memory that is not registered shared state"})
		}
	}
}

func (m *Machine) nonNil(v value) *value {
	p, ok := v.(*value)
	if !ok {
		if up, ok2 := v.(unsafe.Pointer); ok2 {
			p = (*value)(up)
		} else {
			panic(engineFault{fmt.Sprintf("expected pointer, have %T", v)})
		}
	}
	if p == nil {
		m.rtPanic("invalid memory address or nil pointer dereference")
	}
	if m.seg != nil && m.inAtomic {
		m.segAtomicCheck(p)
	}
	return p
}

// ---------------------------------------------------------------------------
// misc std stubs

func registerMisc(p *Program) {
	ext := p.externals
	nop := func(fr *frame, a []value) value { return nil }

	// internal/bytealg on concrete data (symbolic bytes are compared through decide)
	byteEq := func(m *Machine, x, y value) bool {
		return m.decide(m.equalsV(nil, x, y), "byte-eq")
	}
	indexByte := func(fr *frame, a []value) value {
		b := seqBytes(a[0])
		for i := range b {
			if byteEq(fr.m, b[i], a[1]) {
				return i
			}
		}
		return -1
	}
	ext["internal/bytealg.IndexByte"] = indexByte
	ext["internal/bytealg.IndexByteString"] = indexByte
	lastIndexByte := func(fr *frame, a []value) value {
		b := seqBytes(a[0])
		for i := len(b) - 1; i >= 0; i-- {
			if byteEq(fr.m, b[i], a[1]) {
				return i
			}
		}
		return -1
	}
	ext["internal/bytealg.LastIndexByte"] = lastIndexByte
	ext["internal/bytealg.LastIndexByteString"] = lastIndexByte
	count := func(fr *frame, a []value) value {
		b := seqBytes(a[0])
		n := 0
		for i := range b {
			if byteEq(fr.m, b[i], a[1]) {
				n++
			}
		}
		return n
	}
	ext["internal/bytealg.Count"] = count
	ext["internal/bytealg.CountString"] = count
	ext["internal/bytealg.Equal"] = func(fr *frame, a []value) value {
		return fr.m.decide(fr.m.strBinop(tokenEQL, mkString(seqBytes(a[0])), mkString(seqBytes(a[1]))), "bytes-equal")
	}
	ext["internal/bytealg.Compare"] = func(fr *frame, a []value) value {
		x, y := mkString(seqBytes(a[0])), mkString(seqBytes(a[1]))
		if fr.m.decide(fr.m.strBinop(tokenLSS, x, y), "bytes-compare") {
			return -1
		}
		if fr.m.decide(fr.m.strBinop(tokenEQL, x, y), "bytes-compare") {
			return 0
		}
		return 1
	}
	ext["internal/bytealg.CompareString"] = ext["internal/bytealg.Compare"]
	index := func(fr *frame, a []value) value {
		h, n := seqBytes(a[0]), seqBytes(a[1])
		for i := 0; i+len(n) <= len(h); i++ {
			ok := true
			for j := range n {
				if !byteEq(fr.m, h[i+j], n[j]) {
					ok = false
					break
				}
			}
			if ok {
				return i
			}
		}
		return -1
	}
	ext["internal/bytealg.Index"] = index
	ext["internal/bytealg.IndexString"] = index
	ext["internal/bytealg.MakeNoZero"] = func(fr *frame, a []value) value {
		n := fr.m.allocSize(a[0], "bytealg.MakeNoZero")
		s := make([]value, n)
		for i := range s {
			s[i] = uint8(0)
		}
		return s
	}
	ext["internal/bytealg.Cutover"] = func(fr *frame, a []value) value { return 1 << 30 }
	ext["strings.Index"] = index
	ext["strings.IndexByte"] = indexByte
	ext["bytes.IndexByte"] = indexByte
	ext["(*strings.Builder).String"] = func(fr *frame, a []value) value {
		s := (*fr.m.nonNil(a[0])).(structure)
		for _, f := range s {
			if b, ok := f.([]value); ok {
				return mkString(b)
			}
		}
		return ""
	}
	ext["(*strings.Builder).copyCheck"] = nop
	// unicode predicates and space trimming natively (the unicode tables are
	// not initialised in the interpreter)
	for name, f := range map[string]func(rune) bool{"IsSpace": unicode.IsSpace, "IsLetter": unicode.IsLetter, "IsDigit": unicode.IsDigit,
		"IsUpper": unicode.IsUpper, "IsLower": unicode.IsLower, "IsPunct": unicode.IsPunct, "IsControl": unicode.IsControl,
		"IsPrint": unicode.IsPrint, "IsNumber": unicode.IsNumber, "IsGraphic": unicode.IsGraphic} {
		f := f
		ext["unicode."+name] = func(fr *frame, a []value) value {
			return f(rune(asInt64(fr.m.representative(a[0], "rune classified by unicode table"))))
		}
	}
	ext["unicode.ToLower"] = func(fr *frame, a []value) value {
		return unicode.ToLower(rune(asInt64(fr.m.representative(a[0], "rune case-mapped"))))
	}
	ext["unicode.ToUpper"] = func(fr *frame, a []value) value {
		return unicode.ToUpper(rune(asInt64(fr.m.representative(a[0], "rune case-mapped"))))
	}
	ext["strings.TrimSpace"] = func(fr *frame, a []value) value {
		return strings.TrimSpace(fr.m.concreteStr(a[0], "strings.TrimSpace"))
	}
	ext["strings.ToLower"] = func(fr *frame, a []value) value {
		return strings.ToLower(fr.m.concreteStr(a[0], "strings.ToLower"))
	}
	ext["strings.ToUpper"] = func(fr *frame, a []value) value {
		return strings.ToUpper(fr.m.concreteStr(a[0], "strings.ToUpper"))
	}
	ext["strings.Clone"] = func(fr *frame, a []value) value { return a[0] }
	ext["internal/stringslite.Clone"] = func(fr *frame, a []value) value { return a[0] }

	ext["maps.clone"] = func(fr *frame, a []value) value {
		it := a[0].(iface)
		o, _ := it.v.(*omap)
		return iface{t: it.t, v: o.clone()}
	}
	// runtime / os / debug
	ext["runtime.Gosched"] = func(fr *frame, a []value) value { fr.m.yield(); return nil }
	ext["runtime.GC"] = nop
	ext["runtime.KeepAlive"] = nop
	ext["runtime.SetFinalizer"] = nop
	ext["runtime.NumCPU"] = func(fr *frame, a []value) value { return 4 }
	ext["runtime.GOMAXPROCS"] = func(fr *frame, a []value) value { return 4 }
	ext["runtime.NumGoroutine"] = func(fr *frame, a []value) value {
		n := 0
		for _, g := range fr.m.gs {
			if !g.done {
				n++
			}
		}
		return n
	}
	ext["runtime/debug.Stack"] = func(fr *frame, a []value) value { return []value{} }
	ext["runtime.Stack"] = func(fr *frame, a []value) value { return 0 }
	ext["runtime.Callers"] = func(fr *frame, a []value) value { return 0 }
	ext["runtime.Caller"] = func(fr *frame, a []value) value { return tuple{uintptr(0), "", 0, false} }
	ext["os.Getenv"] = func(fr *frame, a []value) value { return "" }
	ext["os.Getpid"] = func(fr *frame, a []value) value { return 4242 }
	ext["os.Hostname"] = func(fr *frame, a []value) value { return tuple{"host", iface{}} }

	// math bits
	ext["math.Float32bits"] = func(fr *frame, a []value) value { return mathFloat32bits(a[0].(float32)) }
	ext["math.Float64bits"] = func(fr *frame, a []value) value { return mathFloat64bits(a[0].(float64)) }
	ext["math.Float32frombits"] = func(fr *frame, a []value) value {
		return mathFloat32frombits(uint32(bitsOf(fr.m.representative(a[0], "float bits"))))
	}
	ext["math.Float64frombits"] = func(fr *frame, a []value) value {
		return mathFloat64frombits(bitsOf(fr.m.representative(a[0], "float bits")))
	}

	// uuid: fresh distinct tokens
	uuidStr := func(fr *frame, a []value) value {
		fr.m.uuidSeq++
		return fmt.Sprintf("00000000-0000-4000-8000-%012d", fr.m.uuidSeq)
	}
	ext["github.com/google/uuid.NewString"] = uuidStr
	uuidArr := func(fr *frame, a []value) value {
		fr.m.uuidSeq++
		arr := make(array, 16)
		for i := range arr {
			arr[i] = uint8(0)
		}
		arr[6], arr[8] = uint8(0x40), uint8(0x80)
		arr[14], arr[15] = uint8(fr.m.uuidSeq>>8), uint8(fr.m.uuidSeq)
		return arr
	}
	ext["github.com/google/uuid.New"] = uuidArr
	ext["github.com/google/uuid.Must"] = func(fr *frame, a []value) value { return a[0] }
	ext["github.com/google/uuid.NewRandom"] = func(fr *frame, a []value) value { return tuple{uuidArr(fr, a), iface{}} }

	// regexp: native objects
	ext["regexp.MustCompile"] = func(fr *frame, a []value) value {
		re := regexp.MustCompile(concreteString(a[0]))
		cell := value(&native{tag: "regexp", obj: re})
		return &cell
	}
	ext["(*regexp.Regexp).MatchString"] = func(fr *frame, a []value) value {
		n := (*fr.m.nonNil(a[0])).(*native)
		return n.obj.(*regexp.Regexp).MatchString(fr.m.concreteStr(a[1], "regexp input"))
	}

	ext["(*regexp.Regexp).ReplaceAllString"] = func(fr *frame, a []value) value {
		n := (*fr.m.nonNil(a[0])).(*native)
		return n.obj.(*regexp.Regexp).ReplaceAllString(fr.m.concreteStr(a[1], "regexp input"), fr.m.concreteStr(a[2], "regexp replacement"))
	}
	ext["(*regexp.Regexp).FindStringSubmatch"] = func(fr *frame, a []value) value {
		n := (*fr.m.nonNil(a[0])).(*native)
		res := n.obj.(*regexp.Regexp).FindStringSubmatch(fr.m.concreteStr(a[1], "regexp input"))
		if res == nil {
			return []value(nil)
		}
		out := make([]value, len(res))
		for i, s := range res {
			out[i] = s
		}
		return out
	}
	ext["(*regexp.Regexp).Match"] = func(fr *frame, a []value) value {
		n := (*fr.m.nonNil(a[0])).(*native)
		return n.obj.(*regexp.Regexp).MatchString(fr.m.concreteStr(mkString(a[1].([]value)), "regexp input"))
	}
	// net helpers on concrete strings
	ext["net.SplitHostPort"] = func(fr *frame, a []value) value {
		h, pt, err := net.SplitHostPort(fr.m.concreteStr(a[0], "net.SplitHostPort"))
		if err != nil {
			return tuple{"", "", fr.m.mkError(err.Error())}
		}
		return tuple{h, pt, iface{}}
	}
	// randomness: fixed representative values (listed as a stub in the evidence)
	ext["math/rand.Float64"] = func(fr *frame, a []value) value { return float64(0.5) }
	ext["math/rand.Intn"] = func(fr *frame, a []value) value { return 0 }
	ext["math/rand.Int63n"] = func(fr *frame, a []value) value { return int64(0) }
	ext["math/rand.Int"] = func(fr *frame, a []value) value { return 0 }
	ext["math/rand.Shuffle"] = func(fr *frame, a []value) value { return nil } // identity permutation (one representative order)
	ext["math.Pow"] = func(fr *frame, a []value) value { return mathPow(a[0].(float64), a[1].(float64)) }
	ext["net.Dial"] = func(fr *frame, a []value) value {
		return tuple{iface{}, fr.m.mkError("dial tcp " + fr.m.concreteStr(a[1], "net.Dial") + ": connect: connection refused")}
	}
	ext["net.JoinHostPort"] = func(fr *frame, a []value) value {
		return net.JoinHostPort(fr.m.concreteStr(a[0], "net.JoinHostPort"), fr.m.concreteStr(a[1], "net.JoinHostPort"))
	}
	ext["net.ParseIP"] = func(fr *frame, a []value) value {
		ip := net.ParseIP(fr.m.concreteStr(a[0], "net.ParseIP"))
		if ip == nil {
			return []value(nil)
		}
		out := make([]value, len(ip))
		for i, b := range ip {
			out[i] = b
		}
		return out
	}

	// sort.Slice & friends with interpreted less
	sortSlice := func(fr *frame, a []value) value {
		it := a[0].(iface)
		s, ok := it.v.([]value)
		if !ok {
			panic(unsupported{"sort.Slice on non-slice"})
		}
		less := a[1]
		// insertion sort keeps the swaps in place like reflect.Swapper would
		idx := make([]int, len(s))
		for i := range idx {
			idx[i] = i
		}
		cp := make([]value, len(s))
		copy(cp, s)
		// less works on indices of the live slice, so sort in place with swaps
		for i := 1; i < len(s); i++ {
			for j := i; j > 0; j-- {
				r := fr.m.call(fr, 0, less, []value{j, j - 1})
				if !fr.m.decide(r, "sort-less") {
					break
				}
				s[j], s[j-1] = s[j-1], s[j]
			}
		}
		return nil
	}
	ext["sort.Slice"] = sortSlice
	ext["sort.SliceStable"] = sortSlice
	ext["sort.Strings"] = func(fr *frame, a []value) value {
		s := a[0].([]value)
		sort.SliceStable(s, func(i, j int) bool {
			return fr.m.decide(fr.m.strBinop(tokenLSS, s[i], s[j]), "sort-strings")
		})
		return nil
	}

	// logging of the code under test: formatting is never the subject
	logPkg := p.TargetMod + "/pkg/log"
	p.prefixExternals = append(p.prefixExternals, prefixExt{prefix: "(*" + logPkg + ".", fn: func(name string) externalFn {
		switch {
		case strings.HasSuffix(name, ").With"), strings.HasSuffix(name, ").WithGroup"):
			return func(fr *frame, a []value) value {
				return iface{t: fr.fn.Signature.Recv().Type(), v: a[0]}
			}
		case strings.HasSuffix(name, ").Debug"), strings.HasSuffix(name, ").Info"), strings.HasSuffix(name, ").Warn"), strings.HasSuffix(name, ").Error"), strings.HasSuffix(name, ").log"):
			return nop
		}
		return nil
	}})
	p.prefixExternals = append(p.prefixExternals, prefixExt{prefix: logPkg + ".", fn: func(name string) externalFn {
		short := name[len(logPkg)+1:]
		if short == "init" || strings.HasPrefix(short, "init#") {
			return nop
		}
		if strings.HasPrefix(short, "New") || short == "GetDefault" {
			return func(fr *frame, a []value) value {
				lp := fr.m.prog.Pkgs[logPkg]
				t := lp.Type("VividLogger").Object().Type()
				cell := zero(t)
				return iface{t: types.NewPointer(t), v: &cell}
			}
		}
		if short == "SetDefault" {
			return nop
		}
		if strings.ContainsAny(short, "$#(") {
			return nil
		}
		// attribute constructors etc.: formatting is never the subject
		return func(fr *frame, a []value) value {
			res := fr.fn.Signature.Results()
			if res.Len() == 0 {
				return nil
			}
			return zero(res)
		}
	}})
}

func (m *Machine) concreteStr(v value, what string) string {
	if s, ok := v.(string); ok {
		return s
	}
	if ss, ok := v.(sstr); ok {
		// one representative per symbolic byte (noted): the callee is a native
		// std function that needs a concrete string
		bs := make([]byte, len(ss.b))
		for i, b := range ss.b {
			bs[i] = byte(bitsOf(m.representative(b, "string passed to "+what)))
		}
		return string(bs)
	}
	panic(unsupported{"symbolic string passed to " + what})
}

func seqBytes(v value) []value {
	switch x := v.(type) {
	case []value:
		return x
	case string, sstr:
		return strBytes(x)
	}
	panic(engineFault{fmt.Sprintf("seqBytes: %T", v)})
}
