package symgo

import (
	"fmt"
	"go/types"
	"strings"

	"golang.org/x/tools/go/ssa"
)

// mkError builds an error value like errors.New(msg).
func (m *Machine) mkError(msg string) value {
	cell := value(structure{msg})
	return iface{t: m.prog.errorsNewT, v: &cell}
}

// errorString calls the interpreted Error() method of an error value.
func (m *Machine) errorString(fr *frame, e iface) value {
	if e.t == nil {
		return "<nil>"
	}
	ms := m.prog.Prog.MethodSets.MethodSet(e.t)
	sel := ms.Lookup(nil, "Error")
	if sel == nil {
		return "<not an error>"
	}
	fn := m.prog.Prog.MethodValue(sel)
	return m.call(fr, 0, fn, []value{e.v})
}

func (m *Machine) hasMethod(t types.Type, name string) *ssa.Function {
	if t == nil {
		return nil
	}
	ms := m.prog.Prog.MethodSets.MethodSet(t)
	for i := 0; i < ms.Len(); i++ {
		if ms.At(i).Obj().Name() == name {
			return m.prog.Prog.MethodValue(ms.At(i))
		}
	}
	return nil
}

// goArg converts an interpreted value into something fmt can print.
func (m *Machine) goArg(fr *frame, v value, depth int) any {
	switch x := v.(type) {
	case bool, int, int8, int16, int32, int64, uint, uint8, uint16, uint32, uint64, uintptr, float32, float64, complex64, complex128, string:
		return x
	case symv:
		return "<sym>"
	case sstr:
		return "<symstr>"
	case iface:
		if x.t == nil {
			return nil
		}
		if rt, ok := x.v.(rtype); ok {
			return fmtStringer(typeString(rt.t))
		}
		if depth < 3 {
			if f := m.hasMethod(x.t, "Error"); f != nil && f.Signature.Params().Len() == 0 {
				s := m.call(fr, 0, f, []value{x.v})
				if str, ok := s.(string); ok {
					return fmtStringer(str)
				}
				return fmtStringer("<symstr>")
			}
			if f := m.hasMethod(x.t, "String"); f != nil && f.Signature.Params().Len() == 0 && f.Signature.Results().Len() == 1 {
				if ext := m.prog.lookupExternal(f); ext != nil || f.Blocks != nil {
					s := m.call(fr, 0, f, []value{x.v})
					if str, ok := s.(string); ok {
						return fmtStringer(str)
					}
					return fmtStringer("<symstr>")
				}
			}
		}
		if _, ok := x.v.(rtype); ok {
			return fmtStringer(typeString(x.v.(rtype).t))
		}
		return m.goArg(fr, x.v, depth+1)
	case []value:
		allBytes := len(x) > 0
		for _, e := range x {
			if _, ok := e.(uint8); !ok {
				allBytes = false
				break
			}
		}
		if allBytes {
			b := make([]byte, len(x))
			for i, e := range x {
				b[i] = e.(uint8)
			}
			return b
		}
		out := make([]any, len(x))
		for i, e := range x {
			out[i] = m.goArg(fr, e, depth+1)
		}
		return out
	case *value:
		if x == nil {
			return nil
		}
		return fmtStringer(fmt.Sprintf("0x%x", m.ptrSeq(x)))
	}
	return fmtStringer(toString(v))
}

type fmtStringer string

func (s fmtStringer) String() string { return string(s) }
func (s fmtStringer) Format(f fmt.State, verb rune) {
	fmt.Fprint(f, string(s))
}

// formatArgs rewrites %T and %w and converts args for native formatting.
func (m *Machine) sprintf(fr *frame, format string, args []value) (string, *iface) {
	var wrapped *iface
	goargs := make([]any, 0, len(args))
	var out strings.Builder
	ai := 0
	for i := 0; i < len(format); i++ {
		c := format[i]
		if c != '%' {
			out.WriteByte(c)
			continue
		}
		j := i + 1
		for j < len(format) && strings.IndexByte("+-# 0123456789.*[]", format[j]) >= 0 {
			j++
		}
		if j >= len(format) {
			out.WriteString(format[i:])
			break
		}
		verb := format[j]
		if verb == '%' {
			out.WriteString("%%")
			i = j
			continue
		}
		if ai >= len(args) {
			out.WriteString(format[i : j+1])
			i = j
			continue
		}
		arg := args[ai]
		ai++
		switch verb {
		case 'T':
			out.WriteString("%s")
			if it, ok := arg.(iface); ok {
				if it.t == nil {
					goargs = append(goargs, "<nil>")
				} else {
					goargs = append(goargs, typeString(it.t))
				}
			} else {
				goargs = append(goargs, fmt.Sprintf("%T", arg))
			}
		case 'w':
			out.WriteString("%v")
			if it, ok := arg.(iface); ok && it.t != nil && wrapped == nil {
				cp := it
				wrapped = &cp
			}
			goargs = append(goargs, m.goArg(fr, arg, 0))
		default:
			out.WriteString(format[i : j+1])
			goargs = append(goargs, m.goArg(fr, arg, 0))
		}
		i = j
	}
	return fmt.Sprintf(out.String(), goargs...), wrapped
}

func registerFmtErrors(p *Program) {
	ext := p.externals
	ext["fmt.Sprintf"] = func(fr *frame, a []value) value {
		s, _ := fr.m.sprintf(fr, fr.m.concreteStr(a[0], "fmt.Sprintf format"), a[1].([]value))
		return s
	}
	ext["fmt.Errorf"] = func(fr *frame, a []value) value {
		m := fr.m
		s, wrapped := m.sprintf(fr, m.concreteStr(a[0], "fmt.Errorf format"), a[1].([]value))
		if wrapped != nil {
			fp := m.prog.Pkgs["fmt"]
			wt := fp.Type("wrapError").Object().Type()
			cell := value(structure{s, *wrapped})
			return iface{t: types.NewPointer(wt), v: &cell}
		}
		return m.mkError(s)
	}
	sprint := func(ln bool) externalFn {
		return func(fr *frame, a []value) value {
			args := a[0].([]value)
			goargs := make([]any, len(args))
			for i, x := range args {
				goargs[i] = fr.m.goArg(fr, x, 0)
			}
			if ln {
				return fmt.Sprintln(goargs...)
			}
			return fmt.Sprint(goargs...)
		}
	}
	ext["fmt.Sprint"] = sprint(false)
	ext["fmt.Sprintln"] = sprint(true)
	nopN := func(fr *frame, a []value) value { return tuple{0, iface{}} }
	for _, n := range []string{"fmt.Printf", "fmt.Println", "fmt.Print", "fmt.Fprintf", "fmt.Fprintln", "fmt.Fprint"} {
		ext[n] = nopN
	}

	ext["errors.init"] = func(fr *frame, a []value) value {
		m := fr.m
		if ep := m.prog.Pkgs["errors"]; ep != nil {
			if g, ok := ep.Members["ErrUnsupported"].(*ssa.Global); ok {
				*m.global(g) = m.mkError("unsupported operation")
			}
		}
		return nil
	}
	// errors.Is / errors.As / errors.Unwrap / errors.Join without reflectlite
	ext["errors.Is"] = func(fr *frame, a []value) value {
		return fr.m.errorsIs(fr, a[0].(iface), a[1].(iface), 0)
	}
	ext["errors.As"] = func(fr *frame, a []value) value {
		m := fr.m
		target := a[1].(iface)
		if target.t == nil {
			panic(targetPanic{m.plainErr("errors: target cannot be nil")})
		}
		pt, ok := target.t.Underlying().(*types.Pointer)
		if !ok {
			panic(targetPanic{m.plainErr("errors: target must be a non-nil pointer")})
		}
		tp := target.v.(*value)
		if tp == nil {
			panic(targetPanic{m.plainErr("errors: target must be a non-nil pointer")})
		}
		return m.errorsAs(fr, a[0].(iface), pt.Elem(), tp, 0)
	}
}

func (m *Machine) unwrapErr(fr *frame, e iface) []iface {
	f := m.hasMethod(e.t, "Unwrap")
	if f == nil || f.Signature.Params().Len() != 0 || f.Signature.Results().Len() != 1 {
		return nil
	}
	r := m.call(fr, 0, f, []value{e.v})
	switch r := r.(type) {
	case iface:
		if r.t == nil {
			return nil
		}
		return []iface{r}
	case []value:
		var out []iface
		for _, x := range r {
			if it := x.(iface); it.t != nil {
				out = append(out, it)
			}
		}
		return out
	}
	return nil
}

func (m *Machine) errorsIs(fr *frame, err, target iface, depth int) bool {
	if depth > 30 {
		panic(unsupported{"errors.Is chain too deep"})
	}
	if err.t == nil || target.t == nil {
		return err.t == nil && target.t == nil
	}
	if types.Comparable(target.t) && sameType(err.t, target.t) {
		if m.decide(m.equalsV(err.t, err.v, target.v), "errors-is-eq") {
			return true
		}
	}
	if f := m.hasMethod(err.t, "Is"); f != nil && f.Signature.Params().Len() == 1 && f.Signature.Results().Len() == 1 {
		r := m.call(fr, 0, f, []value{err.v, target})
		if m.decide(r, "errors-is-method") {
			return true
		}
	}
	for _, u := range m.unwrapErr(fr, err) {
		if m.errorsIs(fr, u, target, depth+1) {
			return true
		}
	}
	return false
}

func (m *Machine) errorsAs(fr *frame, err iface, targetT types.Type, tp *value, depth int) bool {
	if depth > 30 {
		panic(unsupported{"errors.As chain too deep"})
	}
	if err.t == nil {
		return false
	}
	if it, ok := targetT.Underlying().(*types.Interface); ok {
		if types.Implements(err.t, it) {
			*tp = err
			return true
		}
	} else if types.Identical(err.t, targetT) {
		*tp = err.v
		return true
	}
	if f := m.hasMethod(err.t, "As"); f != nil && f.Signature.Params().Len() == 1 {
		r := m.call(fr, 0, f, []value{err.v, iface{t: types.NewPointer(targetT), v: tp}})
		if m.decide(r, "errors-as-method") {
			return true
		}
	}
	for _, u := range m.unwrapErr(fr, err) {
		if m.errorsAs(fr, u, targetT, tp, depth+1) {
			return true
		}
	}
	return false
}
