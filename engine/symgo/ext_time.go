package symgo

import (
	"go/token"
	"go/types"
	"math"
	"sort"

	"verif/engine/smt"
)

const (
	tokenADD = token.ADD
	tokenSUB = token.SUB
	tokenAND = token.AND
	tokenOR  = token.OR
	tokenEQL = token.EQL
	tokenLSS = token.LSS
	tokenLEQ = token.LEQ
)

func mathPow(x, y float64) float64         { return math.Pow(x, y) }
func mathFloat32bits(f float32) uint32     { return math.Float32bits(f) }
func mathFloat64bits(f float64) uint64     { return math.Float64bits(f) }
func mathFloat32frombits(b uint32) float32 { return math.Float32frombits(b) }
func mathFloat64frombits(b uint64) float64 { return math.Float64frombits(b) }

// time.Time is abstracted to {wall: tag, ext: UnixNano, loc: nil}. tag 0 is
// the zero Time (year 1), tag 1 a time given by its UnixNano value.
// Assumption (listed in evidence): time.Unix(0, t.UnixNano()) == t on the
// representable range; Duration arithmetic wraps instead of saturating.

const zeroTimeUnixNano = -6795364578871345152

func mkTime(nanos value) value {
	return structure{uint64(1), nanos, (*value)(nil)}
}

func (m *Machine) timeNanos(t value) value {
	s := t.(structure)
	tag := s[0]
	if isSym(tag) {
		panic(unsupported{"symbolic time tag"})
	}
	if bitsOf(tag) == 0 {
		return int64(zeroTimeUnixNano)
	}
	return s[1]
}

func (m *Machine) timeIsZero(t value) bool {
	return bitsOf(t.(structure)[0]) == 0
}

type vtimer struct {
	id      int
	deadline value // virtual-clock instant (int64 or symbolic) at which the timer is due
	dur     int64
	f       value  // AfterFunc callback (nil for After)
	ch      *vchan // After channel
	fired   bool
	stopped bool
	cell    *value
	vc      vclock // race detection: the creator's clock when the timer was armed
}

func (m *Machine) fireTimers() value {
	n := 0
	for {
		var pend []*vtimer
		for _, t := range m.timers {
			if !t.fired && !t.stopped {
				pend = append(pend, t)
			}
		}
		if len(pend) == 0 {
			return n
		}
		sort.SliceStable(pend, func(i, j int) bool { return pend[i].dur < pend[j].dur })
		m.fireTimer(pend[0])
		n++
	}
}

func (m *Machine) fireTimer(t *vtimer) {
	m.fireTimerNoYield(t)
	m.yield()
}

func (m *Machine) fireTimerNoYield(t *vtimer) {
	t.fired = true
	if t.f != nil {
		// AfterFunc runs its callback in its own goroutine
		m.raceForkExtra = t.vc
		m.spawn(t.f, nil, 0)
	} else if t.ch != nil {
		if len(t.ch.buf) < t.ch.cap {
			t.ch.buf = append(t.ch.buf, mkTime(int64(0)))
		}
	}
}

// clock is the virtual clock driven by vrtAdvance (nanoseconds since the start
// of the path).
func (m *Machine) clock() value {
	if m.vclock == nil {
		m.vclock = int64(0)
	}
	return m.vclock
}

// advance moves the virtual clock forward by d and fires, one at a time (each
// followed by a yield so that AfterFunc callbacks run), every pending timer
// whose deadline is not after the new instant. Whether a symbolic deadline is
// due is a branch decision.
func (m *Machine) advance(d value) value {
	m.vclock = m.binop(token.ADD, nil, m.clock(), d)
	n := 0
	for {
		var pend []*vtimer
		for _, t := range m.timers {
			if !t.fired && !t.stopped && t.deadline != nil {
				pend = append(pend, t)
			}
		}
		sort.SliceStable(pend, func(i, j int) bool { return pend[i].dur < pend[j].dur })
		fired := false
		for _, t := range pend {
			due := m.binop(token.LEQ, nil, t.deadline, m.vclock)
			if m.decide(due, "timer-due") {
				m.fireTimer(t)
				n++
				fired = true
				break
			}
		}
		if !fired {
			return n
		}
	}
}

func (m *Machine) nextTimer() *vtimer {
	var best *vtimer
	for _, t := range m.timers {
		if !t.fired && !t.stopped && (best == nil || t.dur < best.dur) {
			best = t
		}
	}
	return best
}

// nowValue returns a fresh symbolic instant, non-decreasing along the path.
func (m *Machine) nowValue() value {
	if m.cfg.Params["concretenow"] > 0 {
		// deterministic time: a fixed epoch plus the virtual clock (vrtAdvance);
		// for harnesses in which instants are driven explicitly
		c := m.clock()
		if !isSym(c) {
			return int64(1_700_000_000_000_000_000) + asInt64(c)
		}
	}
	vin := m.newInput("envnow", types.Int64)
	if m.conc != nil {
		return vin // concrete replay: the instant of the counterexample
	}
	v := vin.(symv)
	lo := m.ctx.BV(0, 64)
	if m.nowTerm != nil {
		lo = m.nowTerm
	}
	hi := m.ctx.BV(1<<62, 64)
	m.assume(m.ctx.And(m.ctx.Cmp(smt.OpSle, lo, v.t), m.ctx.Cmp(smt.OpSlt, v.t, hi)))
	m.nowTerm = v.t
	return v
}

func registerTime(p *Program) {
	ext := p.externals
	ext["time.Now"] = func(fr *frame, a []value) value { return mkTime(fr.m.nowValue()) }
	ext["time.Unix"] = func(fr *frame, a []value) value {
		m := fr.m
		sec, ns := a[0], a[1]
		if !isSym(sec) && asInt64(sec) == 0 {
			return mkTime(ns)
		}
		return mkTime(m.binop(token.ADD, nil, m.binop(token.MUL, nil, sec, int64(1e9)), ns))
	}
	ext["time.UnixMilli"] = func(fr *frame, a []value) value {
		return mkTime(fr.m.binop(token.MUL, nil, a[0], int64(1e6)))
	}
	ext["(time.Time).UnixNano"] = func(fr *frame, a []value) value { return fr.m.timeNanos(a[0]) }
	ext["(time.Time).Unix"] = func(fr *frame, a []value) value {
		return fr.m.binop(token.QUO, nil, fr.m.timeNanos(a[0]), int64(1e9))
	}
	ext["(time.Time).UnixMilli"] = func(fr *frame, a []value) value {
		return fr.m.binop(token.QUO, nil, fr.m.timeNanos(a[0]), int64(1e6))
	}
	ext["(time.Time).IsZero"] = func(fr *frame, a []value) value { return fr.m.timeIsZero(a[0]) }
	ext["(time.Time).Sub"] = func(fr *frame, a []value) value {
		return fr.m.binop(token.SUB, nil, fr.m.timeNanos(a[0]), fr.m.timeNanos(a[1]))
	}
	ext["time.Since"] = func(fr *frame, a []value) value {
		return fr.m.binop(token.SUB, nil, fr.m.nowValue(), fr.m.timeNanos(a[0]))
	}
	ext["time.Until"] = func(fr *frame, a []value) value {
		return fr.m.binop(token.SUB, nil, fr.m.timeNanos(a[0]), fr.m.nowValue())
	}
	ext["(time.Time).Add"] = func(fr *frame, a []value) value {
		return mkTime(fr.m.binop(token.ADD, nil, fr.m.timeNanos(a[0]), a[1]))
	}
	ext["(time.Time).Before"] = func(fr *frame, a []value) value {
		return fr.m.binop(token.LSS, nil, fr.m.timeNanos(a[0]), fr.m.timeNanos(a[1]))
	}
	ext["(time.Time).After"] = func(fr *frame, a []value) value {
		return fr.m.binop(token.GTR, nil, fr.m.timeNanos(a[0]), fr.m.timeNanos(a[1]))
	}
	ext["(time.Time).Equal"] = func(fr *frame, a []value) value {
		return fr.m.binop(token.EQL, types.Typ[types.Int64], fr.m.timeNanos(a[0]), fr.m.timeNanos(a[1]))
	}
	ext["(time.Time).Compare"] = func(fr *frame, a []value) value {
		m := fr.m
		x, y := m.timeNanos(a[0]), m.timeNanos(a[1])
		if m.decide(m.binop(token.LSS, nil, x, y), "time-compare") {
			return -1
		}
		if m.decide(m.binop(token.GTR, nil, x, y), "time-compare") {
			return 1
		}
		return 0
	}
	ext["(time.Time).UTC"] = func(fr *frame, a []value) value { return a[0] }
	ext["(time.Time).Local"] = func(fr *frame, a []value) value { return a[0] }
	ext["(time.Time).In"] = func(fr *frame, a []value) value { return a[0] }
	ext["(time.Time).Round"] = func(fr *frame, a []value) value { return a[0] }
	ext["(time.Time).Truncate"] = func(fr *frame, a []value) value { return a[0] }
	ext["(time.Time).String"] = func(fr *frame, a []value) value { return "<time>" }
	ext["(time.Time).Format"] = func(fr *frame, a []value) value { return "<time>" }
	ext["(time.Duration).String"] = func(fr *frame, a []value) value { return "<duration>" }
	ext["time.Sleep"] = func(fr *frame, a []value) value {
		fr.m.out.Stubs["time.Sleep(called)"]++
		fr.m.sleeps = append(fr.m.sleeps, a[0])
		fr.m.yield()
		return nil
	}
	newTimer := func(m *Machine, d value, f value, ch *vchan) *value {
		dur := int64(0)
		if !isSym(d) {
			dur = asInt64(d)
		}
		t := &vtimer{id: len(m.timers), dur: dur, f: f, ch: ch}
		if m.raceOn() {
			t.vc = m.raceVC(m.cur).clone()
			if ch != nil {
				m.raceRelease(ch) // receiving from the timer channel happens after arming it
			}
		}
		t.deadline = m.binop(token.ADD, nil, m.clock(), d)
		m.timers = append(m.timers, t)
		// *time.Timer{C <-chan Time; initTimer bool}
		var cv value = (*vchan)(nil)
		if ch != nil {
			cv = ch
		}
		cell := value(structure{cv, false})
		t.cell = &cell
		m.sideState[&cell] = &timerState{t}
		return &cell
	}
	ext["time.AfterFunc"] = func(fr *frame, a []value) value { return newTimer(fr.m, a[0], a[1], nil) }
	ext["time.NewTimer"] = func(fr *frame, a []value) value {
		return newTimer(fr.m, a[0], nil, fr.m.newChan(1, nil))
	}
	ext["time.After"] = func(fr *frame, a []value) value {
		ch := fr.m.newChan(1, nil)
		newTimer(fr.m, a[0], nil, ch)
		return ch
	}
	ext["(*time.Timer).Stop"] = func(fr *frame, a []value) value {
		ts, ok := fr.m.sideState[fr.m.nonNil(a[0])].(*timerState)
		if !ok {
			return false
		}
		was := !ts.t.fired && !ts.t.stopped
		ts.t.stopped = true
		return was
	}
	ext["(*time.Timer).Reset"] = func(fr *frame, a []value) value {
		ts, ok := fr.m.sideState[fr.m.nonNil(a[0])].(*timerState)
		if !ok {
			return false
		}
		was := !ts.t.fired && !ts.t.stopped
		ts.t.stopped = false
		ts.t.fired = false
		if !isSym(a[1]) {
			ts.t.dur = asInt64(a[1])
		}
		return was
	}
}
