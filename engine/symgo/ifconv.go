package symgo

// If-conversion: a branch on a symbolic condition whose arms are side-effect
// free and rejoin (at a common post-dominator, or by returning) is evaluated
// once with guarded values merged into ite terms instead of forking the path.
// The attempt is speculative: anything outside the pure subset abandons it and
// the engine falls back to forking, so soundness does not depend on it.

import (
	"go/token"
	"go/types"
	"sync"

	"golang.org/x/tools/go/ssa"

	"verif/engine/smt"
)

type pdomInfo struct {
	ipdom []int // immediate post-dominator block index, -1 = virtual exit
	rpo   map[*ssa.BasicBlock]int
}

var pdomCache sync.Map // *ssa.Function -> *pdomInfo

func postDominators(fn *ssa.Function) *pdomInfo {
	if v, ok := pdomCache.Load(fn); ok {
		return v.(*pdomInfo)
	}
	n := len(fn.Blocks)
	exit := n
	// pdom sets as bitsets over n+1 nodes
	words := (n + 1 + 63) / 64
	full := make([]uint64, words)
	for i := 0; i <= n; i++ {
		full[i/64] |= 1 << uint(i%64)
	}
	sets := make([][]uint64, n+1)
	for i := range sets {
		sets[i] = append([]uint64(nil), full...)
	}
	for i := range sets[exit] {
		sets[exit][i] = 0
	}
	sets[exit][exit/64] |= 1 << uint(exit%64)
	succs := func(b int) []int {
		blk := fn.Blocks[b]
		if len(blk.Succs) == 0 {
			return []int{exit}
		}
		out := make([]int, len(blk.Succs))
		for i, s := range blk.Succs {
			out[i] = s.Index
		}
		return out
	}
	changed := true
	tmp := make([]uint64, words)
	for changed {
		changed = false
		for b := n - 1; b >= 0; b-- {
			copy(tmp, full)
			for _, s := range succs(b) {
				for w := range tmp {
					tmp[w] &= sets[s][w]
				}
			}
			tmp[b/64] |= 1 << uint(b%64)
			for w := range tmp {
				if tmp[w] != sets[b][w] {
					changed = true
					sets[b][w] = tmp[w]
				}
			}
		}
	}
	has := func(set []uint64, i int) bool { return set[i/64]&(1<<uint(i%64)) != 0 }
	count := func(set []uint64) int {
		c := 0
		for i := 0; i <= n; i++ {
			if has(set, i) {
				c++
			}
		}
		return c
	}
	info := &pdomInfo{ipdom: make([]int, n)}
	for b := 0; b < n; b++ {
		// the immediate post-dominator is the strict post-dominator with the
		// largest own post-dominator set
		best, bestCount := -2, -1
		for c := 0; c <= n; c++ {
			if c == b || !has(sets[b], c) {
				continue
			}
			if k := count(sets[c]); k > bestCount {
				best, bestCount = c, k
			}
		}
		if best == exit || best == -2 {
			info.ipdom[b] = -1
		} else {
			info.ipdom[b] = best
		}
	}
	pdomCache.Store(fn, info)
	return info
}

type abandonMerge struct{ why string }

type regionState struct {
	guard map[*ssa.BasicBlock]*smt.Term
	// incoming guarded edges per block: pred -> guard
	in map[*ssa.BasicBlock]map[*ssa.BasicBlock]*smt.Term
}

// tryIfConvert attempts to evaluate the region controlled by the If at the end
// of fr.block. On success the frame is positioned after the region (either at
// the join block with its phis assigned, or returned) and true is reported.
func (m *Machine) tryIfConvert(fr *frame, instr *ssa.If, cond *smt.Term) (cont continuation, ok bool) {
	if m.cfg.NoIfConv {
		return 0, false
	}
	fn := fr.fn
	if fn.Recover != nil {
		return 0, false
	}
	info := postDominators(fn)
	B := fr.block
	joinIdx := info.ipdom[B.Index]
	var join *ssa.BasicBlock
	if joinIdx >= 0 {
		join = fn.Blocks[joinIdx]
	}
	// collect region blocks (reachable from B's successors without passing join)
	region := map[*ssa.BasicBlock]bool{}
	var order []*ssa.BasicBlock
	var visit func(b *ssa.BasicBlock) bool
	state := map[*ssa.BasicBlock]int{}
	visit = func(b *ssa.BasicBlock) bool {
		if b == join {
			return true
		}
		if b == B {
			return false // loop back to the branch
		}
		switch state[b] {
		case 1:
			return false // cycle
		case 2:
			return true
		}
		state[b] = 1
		if len(region) > 24 {
			return false
		}
		region[b] = true
		for _, s := range b.Succs {
			if !visit(s) {
				return false
			}
		}
		state[b] = 2
		order = append(order, b)
		return true
	}
	for _, s := range B.Succs {
		if !visit(s) {
			return 0, false
		}
	}
	// static eligibility: only pure instruction kinds
	for b := range region {
		for _, in := range b.Instrs {
			switch x := in.(type) {
			case *ssa.BinOp:
				if x.Op == token.QUO || x.Op == token.REM || x.Op == token.SHL || x.Op == token.SHR {
					if _, isConst := x.Y.(*ssa.Const); !isConst {
						return 0, false
					}
				}
			case *ssa.UnOp:
				if x.Op == token.ARROW || x.Op == token.MUL {
					return 0, false
				}
			case *ssa.Phi, *ssa.Convert, *ssa.ChangeType, *ssa.If, *ssa.Jump, *ssa.DebugRef, *ssa.Extract:
			case *ssa.Return:
				if join != nil {
					return 0, false
				}
			default:
				return 0, false
			}
		}
	}
	if join == nil {
		// all paths must return; a function with defers has RunDefers before
		// Return, which is excluded above
		for b := range region {
			if len(b.Succs) == 0 {
				if _, isRet := b.Instrs[len(b.Instrs)-1].(*ssa.Return); !isRet {
					return 0, false
				}
			}
		}
	}
	// reverse post-order = reverse of `order`
	for i, j := 0, len(order)-1; i < j; i, j = i+1, j-1 {
		order[i], order[j] = order[j], order[i]
	}

	saved := map[ssa.Value]value{}
	hadSaved := map[ssa.Value]bool{}
	setEnv := func(v ssa.Value, x value) {
		if _, done := hadSaved[v]; !done {
			old, had := fr.env[v]
			hadSaved[v] = had
			saved[v] = old
		}
		fr.env[v] = x
	}
	restore := func() {
		for v, had := range hadSaved {
			if had {
				fr.env[v] = saved[v]
			} else {
				delete(fr.env, v)
			}
		}
	}
	success := false
	defer func() {
		if !success {
			restore()
		}
		if r := recover(); r != nil {
			if _, isAb := r.(abandonMerge); isAb {
				cont, ok = 0, false
				return
			}
			panic(r)
		}
	}()

	c := m.ctx
	in := map[*ssa.BasicBlock]map[*ssa.BasicBlock]*smt.Term{}
	addEdge := func(from, to *ssa.BasicBlock, g *smt.Term) {
		if g.IsFalse() {
			return
		}
		mm := in[to]
		if mm == nil {
			mm = map[*ssa.BasicBlock]*smt.Term{}
			in[to] = mm
		}
		if old, ok := mm[from]; ok {
			g = c.Or(old, g)
		}
		mm[from] = g
	}
	addEdge(B, B.Succs[0], cond)
	addEdge(B, B.Succs[1], c.Not(cond))

	type ret struct {
		g *smt.Term
		v value
	}
	var rets []ret

	mergePhi := func(phi *ssa.Phi, blk *ssa.BasicBlock) value {
		var res value
		var resSet bool
		// fold incoming edges: later edges wrap earlier ones in ite
		for i, p := range blk.Preds {
			g, ok := in[blk][p]
			if !ok {
				continue
			}
			v := fr.get(phi.Edges[i])
			if !resSet {
				res, resSet = v, true
				continue
			}
			res = m.iteValue(g, v, res)
		}
		if !resSet {
			panic(abandonMerge{"phi without live edge"})
		}
		return res
	}

	for _, blk := range order {
		edges := in[blk]
		if len(edges) == 0 {
			continue // unreachable under the current guards
		}
		var gs []*smt.Term
		for _, g := range edges {
			gs = append(gs, g)
		}
		guard := c.Or(gs...)
		// phis first (parallel)
		var phiVals []value
		var phis []*ssa.Phi
		for _, ins := range blk.Instrs {
			phi, ok := ins.(*ssa.Phi)
			if !ok {
				break
			}
			phis = append(phis, phi)
			phiVals = append(phiVals, mergePhi(phi, blk))
		}
		for i, phi := range phis {
			setEnv(phi, phiVals[i])
		}
		for _, ins := range blk.Instrs[len(phis):] {
			m.step()
			switch x := ins.(type) {
			case *ssa.DebugRef:
			case *ssa.BinOp:
				xv, yv := fr.get(x.X), fr.get(x.Y)
				if !mergeableScalarOrString(xv) || !mergeableScalarOrString(yv) {
					if x.Op != token.EQL && x.Op != token.NEQ {
						panic(abandonMerge{"binop on non-scalar"})
					}
				}
				setEnv(x, m.binop(x.Op, x.X.Type(), xv, yv))
			case *ssa.UnOp:
				setEnv(x, m.unop(fr, x, fr.get(x.X)))
			case *ssa.Convert:
				v := fr.get(x.X)
				if _, isSym := v.(symv); !isSym {
					if _, isScalar := kindOf(v); !isScalar {
						panic(abandonMerge{"convert of non-scalar"})
					}
				}
				if b, ok := x.Type().Underlying().(*types.Basic); !ok || b.Info()&(types.IsInteger|types.IsBoolean) == 0 {
					panic(abandonMerge{"convert to non-integer"})
				}
				setEnv(x, m.conv(x.Type(), x.X.Type(), v))
			case *ssa.ChangeType:
				setEnv(x, fr.get(x.X))
			case *ssa.Extract:
				setEnv(x, fr.get(x.Tuple).(tuple)[x.Index])
			case *ssa.If:
				cv := fr.get(x.Cond)
				var ct *smt.Term
				switch cc := cv.(type) {
				case bool:
					ct = c.Bool(cc)
				case symv:
					ct = cc.t
				default:
					panic(abandonMerge{"if on non-bool"})
				}
				addEdge(blk, blk.Succs[0], c.And(guard, ct))
				addEdge(blk, blk.Succs[1], c.And(guard, c.Not(ct)))
			case *ssa.Jump:
				addEdge(blk, blk.Succs[0], guard)
			case *ssa.Return:
				var v value
				switch len(x.Results) {
				case 0:
				case 1:
					v = fr.get(x.Results[0])
				default:
					var res []value
					for _, r := range x.Results {
						res = append(res, fr.get(r))
					}
					v = tuple(res)
				}
				rets = append(rets, ret{guard, v})
			default:
				panic(abandonMerge{"instruction"})
			}
		}
	}

	if join != nil {
		if len(in[join]) == 0 {
			panic(abandonMerge{"join unreachable"})
		}
		var phis []*ssa.Phi
		var vals []value
		for _, ins := range join.Instrs {
			phi, ok := ins.(*ssa.Phi)
			if !ok {
				break
			}
			phis = append(phis, phi)
			vals = append(vals, mergePhi(phi, join))
		}
		success = true
		for i, phi := range phis {
			fr.env[phi] = vals[i]
		}
		fr.prevBlock, fr.block = nil, join
		fr.skipPhis = true
		m.out.IfConv++
		return kJump, true
	}
	// all arms returned
	if len(rets) == 0 {
		panic(abandonMerge{"no return"})
	}
	res := rets[0].v
	for _, r := range rets[1:] {
		res = m.iteValue(r.g, r.v, res)
	}
	success = true
	fr.result = res
	fr.block = nil
	m.out.IfConv++
	return kReturn, true
}

func mergeableScalarOrString(v value) bool {
	switch v.(type) {
	case symv, string, sstr:
		return true
	}
	_, ok := kindOf(v)
	return ok
}

// iteValue builds ite(g, a, b) over values; abandons the merge when the values
// are not scalars (or tuples of scalars) and differ.
func (m *Machine) iteValue(g *smt.Term, a, b value) value {
	if g.IsTrue() {
		return a
	}
	if g.IsFalse() {
		return b
	}
	switch x := a.(type) {
	case tuple:
		y, ok := b.(tuple)
		if !ok || len(x) != len(y) {
			panic(abandonMerge{"tuple shape"})
		}
		out := make(tuple, len(x))
		for i := range x {
			out[i] = m.iteValue(g, x[i], y[i])
		}
		return out
	case nil:
		if b == nil {
			return nil
		}
		panic(abandonMerge{"nil/non-nil"})
	}
	ka, oka := kindOf(a)
	kb, okb := kindOf(b)
	if oka && okb && ka == kb {
		ta, tb := m.termOf(a), m.termOf(b)
		return mkScalar(m.ctx.Ite(g, ta, tb), ka)
	}
	// identical non-scalar values merge trivially
	if !oka && !okb {
		if eq, ok := plainEqual(a, b); ok && eq {
			return a
		}
	}
	panic(abandonMerge{"non-scalar values differ"})
}

// plainEqual compares two engine values without touching the solver; ok=false
// when equality cannot be decided cheaply.
func plainEqual(a, b value) (eq bool, ok bool) {
	switch x := a.(type) {
	case string:
		y, isS := b.(string)
		return isS && x == y, true
	case *value:
		y, isP := b.(*value)
		return isP && x == y, true
	case iface:
		y, isI := b.(iface)
		if !isI {
			return false, true
		}
		if x.t == nil || y.t == nil {
			return x.t == nil && y.t == nil, true
		}
		if !types.Identical(x.t, y.t) {
			return false, true
		}
		return plainEqual(x.v, y.v)
	case *omap:
		y, isM := b.(*omap)
		return isM && x == y, true
	case []value:
		y, isS := b.([]value)
		if !isS {
			return false, true
		}
		if x == nil && y == nil {
			return true, true
		}
		return false, false
	}
	return false, false
}
