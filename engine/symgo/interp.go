package symgo

import (
	"fmt"
	"go/token"
	"go/types"
	"slices"
	"strings"

	"golang.org/x/tools/go/ssa"

	"verif/engine/smt"
)

type continuation int

const (
	kNext continuation = iota
	kReturn
	kJump
)

type deferred struct {
	fn    value
	args  []value
	instr *ssa.Defer
	tail  *deferred
}

type frame struct {
	m                *Machine
	g                *goroutine
	caller           *frame
	fn               *ssa.Function
	block, prevBlock *ssa.BasicBlock
	env              map[ssa.Value]value
	locals           []value
	defers           *deferred
	result           value
	panicking        bool
	panic            any
	phitemps         []value
	depth            int
	skipPhis         bool // phis of fr.block were assigned by if-conversion
	idx              int  // index (in fr.block.Instrs) of the instruction being executed
	resumeAt         int  // idx+1 of the instruction at which to resume this block (0 = none; segment mode)
}

func (fr *frame) get(key ssa.Value) value {
	switch key := key.(type) {
	case nil:
		return nil
	case *ssa.Function, *ssa.Builtin:
		return key
	case *ssa.Const:
		return constValue(key)
	case *ssa.Global:
		return fr.m.global(key)
	}
	if r, ok := fr.env[key]; ok {
		return r
	}
	panic(engineFault{fmt.Sprintf("get: no value for %T: %v in %s", key, key.Name(), fr.fn)})
}

func (fr *frame) runDefer(d *deferred) {
	var ok bool
	defer func() {
		if !ok {
			r := recover()
			if isEngineAbort(r) {
				panic(r)
			}
			fr.panicking = true
			fr.panic = r
		}
	}()
	fr.m.call(fr, d.instr.Pos(), d.fn, d.args)
	ok = true
}

func (fr *frame) runDefers() {
	for d := fr.defers; d != nil; d = d.tail {
		if fr.m.seg != nil && fr.m.seg.isVisibleCallee(fr.m, d.fn) {
			fr.m.visiblePoint(fr, "deferred "+describeFn(d.fn))
		}
		fr.defers = d.tail
		fr.runDefer(d)
	}
	fr.defers = nil
	if fr.panicking {
		panic(fr.panic)
	}
}

func (m *Machine) lookupMethod(typ types.Type, meth *types.Func) *ssa.Function {
	return m.prog.Prog.LookupMethod(typ, meth.Pkg(), meth.Name())
}

func (m *Machine) step() {
	m.steps++
	if m.stepLimit > 0 && m.steps > m.stepLimit {
		m.stepLimit = 0
		m.violate("work-in-proportion-to-input", "the call ran past the step limit set by the harness (vrtStepLimit): it loops or does work out of proportion to its input", nil)
	}
	if m.steps > m.cfg.MaxSteps {
		panic(pathEnd{"budget", fmt.Sprintf("step budget %d exhausted", m.cfg.MaxSteps)})
	}
}

func (m *Machine) visitInstr(fr *frame, instr ssa.Instruction) continuation {
	m.step()
	if m.cfg.Profile != nil {
		m.cfg.Profile[fr.fn.String()]++
	}
	switch instr := instr.(type) {
	case *ssa.DebugRef:

	case *ssa.UnOp:
		if m.seg != nil {
			if instr.Op == token.ARROW {
				m.visiblePoint(fr, "chan recv")
			} else if instr.Op == token.MUL {
				if p, ok := fr.get(instr.X).(*value); ok && m.seg.racy[p] {
					m.visiblePoint(fr, "racy load")
				}
			}
		}
		if m.race != nil && instr.Op == token.MUL {
			if p, ok := fr.get(instr.X).(*value); ok && p != nil {
				m.raceRead(p, fr, instr)
			}
		}
		fr.env[instr] = m.unop(fr, instr, fr.get(instr.X))

	case *ssa.BinOp:
		fr.env[instr] = m.binop(instr.Op, instr.X.Type(), fr.get(instr.X), fr.get(instr.Y))

	case *ssa.Call:
		fn, args := m.prepareCall(fr, &instr.Call)
		if m.seg != nil {
			if m.seg.isVisibleCallee(m, fn) {
				m.visiblePoint(fr, "call "+describeFn(fn))
			} else if b, ok := fn.(*ssa.Builtin); ok && b.Name() == "close" {
				m.visiblePoint(fr, "close")
			}
		}
		fr.env[instr] = m.call(fr, instr.Pos(), fn, args)

	case *ssa.ChangeInterface:
		fr.env[instr] = fr.get(instr.X)

	case *ssa.ChangeType:
		fr.env[instr] = fr.get(instr.X)

	case *ssa.Convert:
		fr.env[instr] = m.conv(instr.Type(), instr.X.Type(), fr.get(instr.X))

	case *ssa.SliceToArrayPointer:
		fr.env[instr] = m.sliceToArrayPointer(instr.Type(), instr.X.Type(), fr.get(instr.X))

	case *ssa.MakeInterface:
		fr.env[instr] = iface{t: instr.X.Type(), v: fr.get(instr.X)}

	case *ssa.Extract:
		fr.env[instr] = fr.get(instr.Tuple).(tuple)[instr.Index]

	case *ssa.Slice:
		fr.env[instr] = m.slice(m.resolveTok(fr.get(instr.X)), fr.get(instr.Low), fr.get(instr.High), fr.get(instr.Max))

	case *ssa.Return:
		switch len(instr.Results) {
		case 0:
		case 1:
			fr.result = fr.get(instr.Results[0])
		default:
			var res []value
			for _, r := range instr.Results {
				res = append(res, fr.get(r))
			}
			fr.result = tuple(res)
		}
		fr.block = nil
		return kReturn

	case *ssa.RunDefers:
		fr.runDefers()

	case *ssa.Panic:
		panic(targetPanic{fr.get(instr.X)})

	case *ssa.Send:
		if m.seg != nil {
			m.visiblePoint(fr, "chan send")
		}
		ch, _ := fr.get(instr.Chan).(*vchan)
		m.chanSend(ch, fr.get(instr.X))

	case *ssa.Store:
		p := fr.get(instr.Addr).(*value)
		if p == nil {
			m.rtPanic("invalid memory address or nil pointer dereference")
		}
		if m.seg != nil {
			if m.seg.racy[p] {
				m.visiblePoint(fr, "racy store")
			}
			m.seg.storeCell(m, p, fr.get(instr.Val))
			break
		}
		if m.race != nil {
			m.raceWrite(p, fr, instr)
		}
		store(nil, p, fr.get(instr.Val))

	case *ssa.If:
		cv := fr.get(instr.Cond)
		if sv, isSym := cv.(symv); isSym && !sv.t.IsConst() {
			if cont, ok := m.tryIfConvert(fr, instr, sv.t); ok {
				return cont
			}
		}
		succ := 1
		if m.decide(cv, "if@"+fr.fn.String()) {
			succ = 0
		}
		fr.prevBlock, fr.block = fr.block, fr.block.Succs[succ]
		return kJump

	case *ssa.Jump:
		fr.prevBlock, fr.block = fr.block, fr.block.Succs[0]
		return kJump

	case *ssa.Defer:
		fn, args := m.prepareCall(fr, &instr.Call)
		defers := &fr.defers
		if instr.DeferStack != nil {
			if into := fr.get(instr.DeferStack); into != nil {
				defers = into.(**deferred)
			}
		}
		*defers = &deferred{fn: fn, args: args, instr: instr, tail: *defers}

	case *ssa.Go:
		fn, args := m.prepareCall(fr, &instr.Call)
		if m.seg != nil {
			m.visiblePoint(fr, "go")
			m.seg.spawned = append(m.seg.spawned, spawnReq{fn: fn, args: args})
			break
		}
		if m.tsSetup != nil {
			// a goroutine started while the scenario is being set up (e.g. by
			// the real Start()) becomes an initial thread of the scenario
			f, a := fn, args
			m.tsSetup.threads = append(m.tsSetup.threads, tsThreadDecl{name: "go:" + shortFn(describeFn(fn)), fn: &hostThread{fn: f, args: a}})
			break
		}
		m.spawn(fn, args, instr.Pos())
		m.schedPoint("go")

	case *ssa.MakeChan:
		sz := fr.get(instr.Size)
		if isSym(sz) {
			sz = m.concretizeRange(sz, "chan-size")
		}
		fr.env[instr] = m.newChan(int(asInt64(sz)), instr.Type().Underlying().(*types.Chan).Elem())

	case *ssa.Alloc:
		var addr *value
		if instr.Heap {
			addr = new(value)
			fr.env[instr] = addr
		} else {
			addr = fr.env[instr].(*value)
		}
		*addr = zero(deref(instr.Type()))
		if m.seg != nil {
			m.seg.markFresh(addr)
		}

	case *ssa.MakeSlice:
		n := m.allocSize(fr.get(instr.Len), "make([]T, len)")
		c := m.allocSize(fr.get(instr.Cap), "make([]T, _, cap)")
		if n > c {
			m.rtPanic("makeslice: cap out of range")
		}
		sl := make([]value, c)
		tElt := instr.Type().Underlying().(*types.Slice).Elem()
		for i := range sl {
			sl[i] = zero(tElt)
			if m.seg != nil {
				m.seg.markFresh(&sl[i])
			}
		}
		fr.env[instr] = sl[:n]

	case *ssa.MakeMap:
		if instr.Reserve != nil {
			m.allocSize(fr.get(instr.Reserve), "make(map, hint)")
		}
		fr.env[instr] = newOmap(instr.Type().Underlying().(*types.Map).Key())

	case *ssa.Range:
		if m.race != nil {
			if mm, ok := fr.get(instr.X).(*omap); ok && mm != nil {
				m.raceRead(mm, fr, instr)
			}
		}
		fr.env[instr] = m.rangeIter(m.resolveTok(fr.get(instr.X)))

	case *ssa.Next:
		fr.env[instr] = fr.get(instr.Iter).(iter).next(m)

	case *ssa.FieldAddr:
		p := fr.get(instr.X).(*value)
		if p == nil {
			m.rtPanic("invalid memory address or nil pointer dereference")
		}
		fr.env[instr] = &(*p).(structure)[instr.Field]

	case *ssa.Field:
		fr.env[instr] = copyVal(fr.get(instr.X).(structure)[instr.Field])

	case *ssa.IndexAddr:
		x := m.resolveTok(fr.get(instr.X))
		if _, isIface := x.(iface); isIface {
			panic(pathEnd{"infeasible", "token of the wrong shape for a slice"})
		}
		idx := fr.get(instr.Index)
		switch x := x.(type) {
		case []value:
			i := m.concreteIndex(idx, len(x), "slice")
			fr.env[instr] = &x[i]
		case *value:
			if x == nil {
				m.rtPanic("invalid memory address or nil pointer dereference")
			}
			a := (*x).(array)
			i := m.concreteIndex(idx, len(a), "array")
			fr.env[instr] = &a[i]
		default:
			panic(engineFault{fmt.Sprintf("unexpected x type in IndexAddr: %T", x)})
		}

	case *ssa.Index:
		x := fr.get(instr.X)
		idx := fr.get(instr.Index)
		switch x := x.(type) {
		case array:
			i := m.concreteIndex(idx, len(x), "array")
			fr.env[instr] = copyVal(x[i])
		case string, sstr:
			b := strBytes(x)
			i := m.concreteIndex(idx, len(b), "string")
			fr.env[instr] = b[i]
		default:
			panic(engineFault{fmt.Sprintf("unexpected x type in Index: %T", x)})
		}

	case *ssa.Lookup:
		if m.race != nil {
			if mm, ok := fr.get(instr.X).(*omap); ok && mm != nil {
				m.raceRead(mm, fr, instr)
			}
		}
		fr.env[instr] = m.lookup(instr, fr.get(instr.X), fr.get(instr.Index))

	case *ssa.MapUpdate:
		mm := fr.get(instr.Map).(*omap)
		if m.race != nil && mm != nil {
			m.raceWrite(mm, fr, instr)
		}
		m.omapSet(mm, fr.get(instr.Key), copyVal(fr.get(instr.Value)))

	case *ssa.TypeAssert:
		fr.env[instr] = m.typeAssert(instr, m.resolveIface(fr.get(instr.X)))

	case *ssa.MakeClosure:
		var bindings []value
		for _, binding := range instr.Bindings {
			bindings = append(bindings, fr.get(binding))
		}
		fr.env[instr] = &closure{instr.Fn.(*ssa.Function), bindings}

	case *ssa.Phi:
		panic(engineFault{"phi reached"})

	case *ssa.Select:
		if m.seg != nil {
			m.visiblePoint(fr, "select")
		}
		fr.env[instr] = m.doSelect(fr, instr)

	default:
		panic(unsupported{fmt.Sprintf("instruction %T", instr)})
	}
	return kNext
}

func deref(t types.Type) types.Type {
	if p, ok := t.Underlying().(*types.Pointer); ok {
		return p.Elem()
	}
	panic(engineFault{"deref of non-pointer " + t.String()})
}

// allocSize checks an allocation request against the budget on the still
// symbolic term, then concretises it.
func (m *Machine) allocSize(v value, what string) int {
	if s, ok := v.(symv); ok {
		w := kindWidth(s.k)
		lim := m.ctx.BV(uint64(m.cfg.AllocBudget), w)
		var over *smt.Term
		if kindSigned(s.k) {
			over = m.ctx.Cmp(smt.OpSlt, lim, s.t)
			neg := m.ctx.Cmp(smt.OpSlt, s.t, m.ctx.BV(0, w))
			if m.decide(mkScalar(neg, types.Bool), "alloc-negative") {
				m.rtPanic("makeslice: len out of range")
			}
		} else {
			over = m.ctx.Cmp(smt.OpUlt, lim, s.t)
		}
		if m.decide(mkScalar(over, types.Bool), "alloc-over-budget") {
			// prefer a witness with a really large request: it reproduces
			// natively as an out-of-memory failure rather than a few MiB
			for _, sh := range []uint{30, 26, 22} {
				if w <= int(sh) {
					continue
				}
				big := m.ctx.Cmp(smt.OpUle, m.ctx.BV(uint64(1)<<sh, w), s.t)
				if kindSigned(s.k) {
					big = m.ctx.Cmp(smt.OpSle, m.ctx.BV(uint64(1)<<sh, w), s.t)
				}
				if m.check(big) == smt.Sat {
					m.assume(big)
					break
				}
			}
			m.onAllocOverBudget(what)
		}
		// small sizes are case-split exhaustively; sizes above the split bound
		// are explored for one representative value (stated in evidence)
		k := int64(m.cfg.AllocSplit)
		small := m.ctx.Cmp(smt.OpUle, s.t, m.ctx.BV(uint64(k), w))
		if m.decide(mkScalar(small, types.Bool), "alloc-small") {
			return int(asInt64(m.concretize(v, "alloc-size")))
		}
		m.ensureModel("alloc-size")
		val := smt.Eval(s.t, m.model)
		m.assume(m.ctx.Eq(s.t, m.ctx.BV(val, w)))
		m.note(fmt.Sprintf("allocation sizes above %d explored for one representative value (%s)", k, what))
		return int(asInt64(fromBits(s.k, val)))
	}
	n := asInt64(v)
	if k, _ := kindOf(v); !kindSigned(k) && bitsOf(v) > uint64(1<<62) {
		n = -1
	}
	if n < 0 {
		m.rtPanic("makeslice: len out of range")
	}
	if n > int64(m.cfg.AllocBudget) {
		m.onAllocOverBudget(what)
	}
	return int(n)
}

func (m *Machine) prepareCall(fr *frame, call *ssa.CallCommon) (fn value, args []value) {
	v := m.resolveTok(fr.get(call.Value))
	if call.Method == nil {
		fn = v
	} else {
		recv, isIface := v.(iface)
		if !isIface {
			panic(pathEnd{"infeasible", "token of the wrong shape for an interface"})
		}
		if recv.t == nil {
			m.rtPanic("invalid memory address or nil pointer dereference (method " + call.Method.Name() + " on nil interface)")
		}
		if rt, ok := recv.v.(rtype); ok && recv.t == m.prog.rtypeMarker {
			fn = &rtypeMethod{name: call.Method.Name(), recv: rt}
		} else if f := m.lookupMethod(recv.t, call.Method); f == nil {
			panic(engineFault{fmt.Sprintf("method set for dynamic type %v does not contain %s", recv.t, call.Method)})
		} else {
			fn = f
			args = append(args, recv.v)
		}
	}
	for _, arg := range call.Args {
		args = append(args, fr.get(arg))
	}
	return
}

func (m *Machine) call(caller *frame, callpos token.Pos, fn value, args []value) value {
	switch fn := fn.(type) {
	case *ssa.Function:
		if fn == nil {
			m.rtPanic("invalid memory address or nil pointer dereference (call of nil func)")
		}
		return m.callSSA(caller, callpos, fn, args, nil)
	case *closure:
		return m.callSSA(caller, callpos, fn.Fn, args, fn.Env)
	case *ssa.Builtin:
		return m.callBuiltin(caller, fn, args)
	case *rtypeMethod:
		return m.callRtypeMethod(fn, args)
	case *hostFunc:
		return fn.f(m, caller, args)
	}
	panic(engineFault{fmt.Sprintf("cannot call %T", fn)})
}

// hostFunc is an engine-implemented function value usable where interpreted
// code expects a func.
type hostFunc struct {
	name string
	f    func(m *Machine, caller *frame, args []value) value
}

func (m *Machine) callSSA(caller *frame, callpos token.Pos, fn *ssa.Function, args []value, env []value) value {
	fr := &frame{m: m, caller: caller, fn: fn}
	if caller != nil {
		fr.depth = caller.depth + 1
		fr.g = caller.g
	} else {
		fr.g = m.cur
	}
	if fr.depth > m.cfg.MaxDepth {
		panic(pathEnd{"fatal", "stack overflow: call depth > " + fmt.Sprint(m.cfg.MaxDepth) + " in " + fn.String()})
	}
	if m.redirects != nil {
		if r, ok := m.redirects[fn.String()]; ok {
			m.out.Stubs["summary:"+fn.String()]++
			return m.call(caller, callpos, r, args)
		}
	}
	if ext := m.prog.lookupExternal(fn); ext != nil {
		m.noteStub(fn)
		if m.preemptMode && fn.Pkg != nil {
			if pp := fn.Pkg.Pkg.Path(); (pp == "sync" || pp == "sync/atomic") && !strings.Contains(fn.String(), "sync.Pool") {
				m.schedPoint(fn.String())
			}
		}
		if m.race != nil && fn.Pkg != nil {
			if pp := fn.Pkg.Pkg.Path(); pp == "sync" || pp == "sync/atomic" {
				name := fn.String()
				m.raceSyncBefore(name, args)
				res := ext(fr, args)
				m.raceSyncAfter(name, args, res)
				return res
			}
		}
		if m.seg != nil && fn.Pkg != nil && fn.Pkg.Pkg.Path() == "sync/atomic" {
			m.inAtomic = true
			defer func() { m.inAtomic = false }()
		}
		return ext(fr, args)
	}
	if fn.Blocks == nil {
		panic(unsupported{"no code for function: " + fn.String() + callerInfo(caller)})
	}
	if fn.TypeParams().Len() > 0 && len(fn.TypeArgs()) == 0 {
		panic(engineFault{"uninstantiated generic " + fn.String()})
	}
	if m.cfg.Trace {
		fmt.Printf("%*s-> %s\n", fr.depth, "", fn)
	}
	m.noteFunc(fn)

	fr.env = make(map[ssa.Value]value)
	fr.block = fn.Blocks[0]
	fr.locals = make([]value, len(fn.Locals))
	for i, l := range fn.Locals {
		fr.locals[i] = zero(deref(l.Type()))
		fr.env[l] = &fr.locals[i]
		if m.seg != nil {
			m.seg.markFresh(&fr.locals[i])
		}
	}
	for i, p := range fn.Params {
		fr.env[p] = args[i]
	}
	for i, fv := range fn.FreeVars {
		fr.env[fv] = env[i]
	}
	for fr.block != nil {
		m.runFrame(fr)
	}
	return fr.result
}

func stackOf(fr *frame) string {
	var parts []string
	for f := fr; f != nil && len(parts) < 12; f = f.caller {
		parts = append(parts, fnShortName(f.fn))
	}
	return strings.Join(parts, " < ")
}

func callerInfo(fr *frame) string {
	if fr == nil {
		return ""
	}
	return " (called from " + fr.fn.String() + ")"
}

func (m *Machine) runFrame(fr *frame) {
	defer func() {
		if fr.block == nil {
			return
		}
		r := recover()
		if isEngineAbort(r) {
			switch x := r.(type) {
			case unsupported:
				if !strings.Contains(x.what, " @ ") {
					x.what += " @ " + stackOf(fr)
					r = x
				}
			case engineFault:
				if !strings.Contains(x.msg, " @ ") {
					x.msg += " @ " + stackOf(fr)
					r = x
				}
			}
			panic(r)
		}
		if _, ok := r.(targetPanic); !ok {
			// a Go runtime error inside the engine: engine bug, not a target panic
			panic(engineFault{fmt.Sprintf("engine crash: %v @ %s", r, stackOf(fr))})
		}
		fr.panicking = true
		fr.panic = r
		fr.runDefers()
		fr.block = fr.fn.Recover
		if fr.block == nil {
			// recovered in a function without named results: return zero values
			fr.result = zero(fr.fn.Signature.Results())
			if fr.fn.Signature.Results().Len() == 0 {
				fr.result = nil
			}
		}
	}()

	for {
		var nonPhis []ssa.Instruction
		base := 0
		if fr.resumeAt > 0 {
			base = fr.resumeAt - 1
			nonPhis = fr.block.Instrs[base:]
			fr.resumeAt = 0
		} else {
			nonPhis = executePhis(fr)
			base = len(fr.block.Instrs) - len(nonPhis)
		}
		for k, instr := range nonPhis {
			fr.idx = base + k
			if m.visitInstr(fr, instr) == kReturn {
				return
			}
		}
	}
}

func executePhis(fr *frame) []ssa.Instruction {
	firstNonPhi := -1
	for i, instr := range fr.block.Instrs {
		if _, ok := instr.(*ssa.Phi); !ok {
			firstNonPhi = i
			break
		}
	}
	nonPhis := fr.block.Instrs[firstNonPhi:]
	if fr.skipPhis {
		fr.skipPhis = false
		return nonPhis
	}
	if firstNonPhi > 0 {
		phis := fr.block.Instrs[:firstNonPhi]
		predIndex := slices.Index(fr.block.Preds, fr.prevBlock)
		fr.phitemps = fr.phitemps[:0]
		for _, phi := range phis {
			phi := phi.(*ssa.Phi)
			fr.phitemps = append(fr.phitemps, fr.get(phi.Edges[predIndex]))
		}
		for i, phi := range phis {
			fr.env[phi.(*ssa.Phi)] = fr.phitemps[i]
		}
	}
	return nonPhis
}

func (m *Machine) doRecover(caller *frame) value {
	if caller != nil && !caller.panicking &&
		caller.caller != nil && caller.caller.panicking {
		caller.caller.panicking = false
		p := caller.caller.panic
		caller.caller.panic = nil
		switch p := p.(type) {
		case targetPanic:
			return p.v
		default:
			panic(engineFault{fmt.Sprintf("unexpected panic type %T in target call to recover()", p)})
		}
	}
	return iface{}
}

func (m *Machine) rangeIter(x value) iter {
	switch x := x.(type) {
	case *omap:
		it := &omapIter{o: x}
		if x != nil {
			var live []int
			for i := range x.keys {
				if x.alive[i] {
					live = append(live, i)
				}
			}
			it.order = m.mapOrder(live)
		}
		return it
	case string, sstr:
		return &stringIter{b: strBytes(x)}
	}
	panic(unsupported{fmt.Sprintf("range over %T", x)})
}

// mapOrder picks the iteration order of a map with the given live entries.
// With MapOrderAll enabled (and few entries) every permutation is explored as
// a decision; otherwise insertion order is used (stated assumption).
func (m *Machine) mapOrder(live []int) []int {
	if !m.mapOrderAll || len(live) < 2 || len(live) > m.cfg.MapOrderMax {
		return live
	}
	rest := append([]int(nil), live...)
	var out []int
	for len(rest) > 1 {
		i := m.choose(len(rest), "map-order")
		out = append(out, rest[i])
		rest = append(rest[:i], rest[i+1:]...)
	}
	return append(out, rest[0])
}

func fnShortName(fn *ssa.Function) string {
	s := fn.String()
	return strings.TrimPrefix(s, "github.com/kercylan98/vivid/")
}
