package symgo

import (
	"fmt"
	"go/token"
	"go/types"
	"sort"

	"golang.org/x/tools/go/ssa"

	"verif/engine/smt"
)

// Config bounds one path execution.
type Config struct {
	MaxSteps      int   // SSA instructions per path
	MaxDepth      int   // call depth ("stack overflow" beyond)
	MaxDecisions  int   // symbolic decisions per path
	AllocBudget   int64 // elements per single allocation
	MaxConcretize int   // distinct values explored per concretisation site
	AllocSplit    int   // allocation sizes up to this are case-split, larger ones get one representative
	MapOrderMax   int   // explore all iteration orders for maps with <= this many entries
	Params        map[string]int64
	Trace         bool
	NoIfConv      bool // disable if-conversion (every symbolic branch forks)
	Profile       map[string]int // if non-nil: SSA instructions per function (single worker only)
}

func DefaultConfig() Config {
	return Config{MaxSteps: 2_000_000, MaxDepth: 200, MaxDecisions: 4000, AllocBudget: 1 << 26, MaxConcretize: 320, AllocSplit: 16, MapOrderMax: 3, Params: map[string]int64{}}
}

// Decision is one element of a trail.
type Decision struct {
	Kind   byte   // 'b' branch, 'c' concretise, 'n' choose
	Choice int    // branch: 1 = true; concretise: 1 = equals Val; choose: index
	Val    uint64 // concretise: candidate value
	Known  bool   // feasibility already established when the trail was queued
	Model  map[string]uint64 // on the last element of a queued trail: a model of the path condition up to and including it
}

// Input is one nondeterministic value handed to the harness (in call order).
type Input struct {
	Name string
	Kind string // "bool","int8",…,"uint64","bytes","string"
	Term *smt.Term
	Len  int         // bytes/string
	Byts []*smt.Term // bytes/string
}

// Violation describes a failed assertion on a feasible path.
type Violation struct {
	Name  string
	Msg   string
	Model map[string]uint64
}

// Outcome of one path.
type Outcome struct {
	Kind       string // "ok","infeasible","violation","panic","fatal","unsupported","budget","deadlock","engine-fault","unknown"
	Msg        string
	Violation  *Violation
	Inputs     []Input
	Reached    map[string]bool
	Decisions  int
	Steps      int
	Asserts    int // assertion obligations discharged (unsat) on this path
	AssertsSym int // … of which had a symbolic condition
	Assumes    []string
	PCSample   string
	Funcs      map[string]int
	Stubs      map[string]int
	Unknowns   int
	IfConv     int // branches merged by if-conversion on this path
	Forks      map[string]int
	Notes      []string
	Model      map[string]uint64 // model of the full path condition (filled on request)
	Choices    []int             // every n-way engine choice taken on this path, in order (vrtChoose, map order, schedule)
	Preempts   int               // preemptive context switches taken on this path
}

// Machine executes one path.
type Machine struct {
	prog   *Program
	cfg    Config
	ctx    *smt.Ctx
	solver *smt.Solver

	trail     []Decision
	pos       int
	newTrails [][]Decision
	pc        []*smt.Term
	model     map[string]uint64 // satisfies every conjunct of pc when non-nil

	globals map[*ssa.Global]*value
	inputs  []Input
	out     *Outcome

	steps       int
	mapOrderAll bool
	noPanic     int // depth of vrtNoPanic scopes
	syncMaps    map[*value]*omap
	sideState   map[*value]any // engine state attached to interpreted objects (WaitGroup counters, timers…)
	timers      []*vtimer
	vclock      value // virtual clock (vrtAdvance)
	nowTerm     *smt.Term // last symbolic instant handed out by time.Now
	uuidSeq     int
	sleeps      []value
	ptrIDs      map[any]int

	seg     *segState // non-nil in tsgen segment mode
	tsSetup *segState // non-nil while a tsgen scenario function runs (registration intrinsics)
	tokRead *segState // token table for property evaluation
	inAtomic bool
	redirects map[string]value // tsgen: callee name -> harness summary

	// preemptive scheduling (Params["preempt"] > 0): every visible operation
	// (sync, sync/atomic, channel op, go) is a schedule point at which, while
	// the preemption budget lasts, the engine forks over "continue" and "switch
	// to runnable goroutine g"; at blocking points and goroutine ends the next
	// goroutine is chosen among all runnable ones (no budget cost).
	preemptMode bool
	preemptLeft int
	nextChoice  bool // also fork over which runnable goroutine continues at blocking points / goroutine ends (Params["nextchoice"] = 1); otherwise FIFO
	// concrete replay (no solver): inputs and choices come from a counterexample
	conc *concreteRun
	// happens-before race detection (Params["race"] = 1)
	race *raceState
	stepLimit  int  // vrtStepLimit: executing more interpreter steps than this is a violation ("work in proportion to the input")
	racePaused bool // vrtRaceOff: the harness's own end-of-run oracle reads shared state at quiescence
	raceForkExtra vclock // joined into the next spawned goroutine's clock (timer callbacks)

	// goroutines
	gs     []*goroutine
	cur    *goroutine
	mainG  *goroutine
	done   chan any
	killed chan struct{}
}

func (m *Machine) global(g *ssa.Global) *value {
	if p, ok := m.globals[g]; ok {
		return p
	}
	if g.Pkg != nil {
		path := g.Pkg.Pkg.Path()
		if !m.prog.isTargetPkg(path) && !m.prog.initAllow[path] && path != "errors" && path != "internal/cpu" && !(path == "time" && (g.Name() == "Local" || g.Name() == "UTC")) {
			if path == "unicode" {
				panic(unsupported{"read of unicode table " + g.Name() + " (package init is skipped)"})
			}
			m.note("global " + path + "." + g.Name() + " read; its package init is skipped (zero value used)")
		}
	}
	cell := zero(deref(g.Type()))
	if g.Pkg != nil && g.Pkg.Pkg.Path() == "time" && (g.Name() == "Local" || g.Name() == "UTC") {
		// *time.Location globals: a non-nil opaque location (time is abstracted to UnixNano)
		loc := zero(deref(deref(g.Type())))
		cell = &loc
	}
	p := &cell
	m.globals[g] = p
	return p
}

func (m *Machine) noteFunc(fn *ssa.Function) {
	if fn.Pkg != nil && m.prog.isTargetPkg(fn.Pkg.Pkg.Path()) {
		m.out.Funcs[fnShortName(fn)]++
	}
}

func (m *Machine) noteStub(fn *ssa.Function) {
	m.out.Stubs[fn.String()]++
}

func (m *Machine) note(s string) {
	if len(m.out.Notes) < 50 {
		m.out.Notes = append(m.out.Notes, s)
	}
}

// ---------------------------------------------------------------------------
// path condition and decisions

func (m *Machine) assume(t *smt.Term) {
	if t.IsTrue() {
		return
	}
	m.pc = append(m.pc, t)
	m.solver.Assert(t)
	if m.model != nil && smt.Eval(t, m.model) != 1 {
		m.model = nil
	}
}

// allVars lists every variable created so far on this path.
func (m *Machine) allVars() []*smt.Term { return m.ctx.Vars }

// ensureModel makes m.model a model of the current path condition.
func (m *Machine) ensureModel(why string) {
	if m.model != nil {
		return
	}
	r, model := m.solver.Check(nil, m.allVars())
	switch r {
	case smt.Unsat:
		panic(pathEnd{"infeasible", "path condition unsatisfiable at " + why})
	case smt.Unknown:
		m.out.Unknowns++
		panic(pathEnd{"unknown", "solver unknown on path condition at " + why})
	}
	if model == nil {
		model = map[string]uint64{}
	}
	m.model = model
}

// checkModel is check() that also returns a model of pc ∧ extra when sat.
func (m *Machine) checkModel(extra *smt.Term) (smt.Result, map[string]uint64) {
	if extra.IsFalse() {
		return smt.Unsat, nil
	}
	r, model := m.solver.Check([]*smt.Term{extra}, m.allVars())
	if r == smt.Unknown {
		m.out.Unknowns++
	}
	if r == smt.Sat && model == nil {
		model = map[string]uint64{}
	}
	return r, model
}

func (m *Machine) check(extra ...*smt.Term) smt.Result {
	for _, e := range extra {
		if e.IsFalse() {
			return smt.Unsat
		}
	}
	r, _ := m.solver.Check(extra, nil)
	if r == smt.Unknown {
		m.out.Unknowns++
	}
	return r
}

func (m *Machine) inputVars() []*smt.Term {
	var vs []*smt.Term
	for _, in := range m.inputs {
		if in.Term != nil {
			vs = append(vs, in.Term)
		}
		vs = append(vs, in.Byts...)
	}
	return vs
}

func (m *Machine) nextDecision() (Decision, bool) {
	if m.pos < len(m.trail) {
		d := m.trail[m.pos]
		m.pos++
		if d.Model != nil && m.pos == len(m.trail) {
			m.model = d.Model
			m.trail[m.pos-1].Model = nil
		}
		return d, true
	}
	if len(m.trail) >= m.cfg.MaxDecisions {
		panic(pathEnd{"budget", fmt.Sprintf("decision budget %d exhausted", m.cfg.MaxDecisions)})
	}
	return Decision{}, false
}

func (m *Machine) record(d Decision) {
	m.trail = append(m.trail, d)
	m.pos = len(m.trail)
}

func (m *Machine) queueAlt(d Decision) {
	alt := make([]Decision, len(m.trail), len(m.trail)+1)
	copy(alt, m.trail)
	alt = append(alt, d)
	m.newTrails = append(m.newTrails, alt)
}

// decide resolves a (possibly symbolic) boolean to a concrete direction,
// forking the exploration when both directions are feasible.
func (m *Machine) decide(cond value, why string) bool {
	if b, ok := cond.(bool); ok {
		return b
	}
	t := cond.(symv).t
	if t.IsConst() {
		return t.Val == 1
	}
	if d, ok := m.nextDecision(); ok {
		if d.Kind != 'b' {
			panic(engineFault{fmt.Sprintf("trail mismatch at %d: want branch, have %c (%s)", m.pos-1, d.Kind, why)})
		}
		if d.Choice == 1 {
			m.assume(t)
			return true
		}
		m.assume(m.ctx.Not(t))
		return false
	}
	// The current model witnesses one direction for free; ask the solver
	// only about the other one.
	m.ensureModel(why)
	cur := smt.Eval(t, m.model) == 1
	other := t
	if cur {
		other = m.ctx.Not(t)
	}
	ro, omodel := m.checkModel(other)
	if ro == smt.Unknown {
		m.note("solver unknown on branch (" + why + "); direction kept")
	}
	choice := 0
	if cur {
		choice = 1
	}
	if ro != smt.Unsat {
		m.queueAlt(Decision{Kind: 'b', Choice: 1 - choice, Known: ro == smt.Sat, Model: omodel})
		if m.out.Forks != nil {
			m.out.Forks[why]++
		}
	}
	m.record(Decision{Kind: 'b', Choice: choice})
	if cur {
		m.assume(t)
	} else {
		m.assume(m.ctx.Not(t))
	}
	return cur
}

// concretize forks over the feasible values of a symbolic scalar.
func (m *Machine) concretize(v value, why string) value {
	s, ok := v.(symv)
	if !ok {
		return v
	}
	if s.k == types.Bool {
		return m.decide(v, why)
	}
	tries := 0
	for {
		tries++
		if tries > m.cfg.MaxConcretize {
			panic(pathEnd{"budget", fmt.Sprintf("concretisation of %s exceeds %d values", why, m.cfg.MaxConcretize)})
		}
		if d, ok := m.nextDecision(); ok {
			if d.Kind != 'c' {
				panic(engineFault{fmt.Sprintf("trail mismatch at %d: want concretise, have %c (%s)", m.pos-1, d.Kind, why)})
			}
			cv := m.ctx.BV(d.Val, s.t.W)
			if d.Choice == 1 {
				m.assume(m.ctx.Eq(s.t, cv))
				return fromBits(s.k, d.Val)
			}
			m.assume(m.ctx.Ne(s.t, cv))
			continue
		}
		// the current model supplies a value for free
		m.ensureModel(why)
		val := smt.Eval(s.t, m.model)
		cv := m.ctx.BV(val, s.t.W)
		if other, omodel := m.checkModel(m.ctx.Ne(s.t, cv)); other != smt.Unsat {
			m.queueAlt(Decision{Kind: 'c', Choice: 0, Val: val, Known: other == smt.Sat, Model: omodel})
		}
		m.record(Decision{Kind: 'c', Choice: 1, Val: val})
		m.assume(m.ctx.Eq(s.t, cv))
		return fromBits(s.k, val)
	}
}

// representative fixes a symbolic scalar to one feasible value without
// exploring the others (used where the value cannot influence control flow
// inside the encoded code, e.g. float payloads); noted in the evidence.
func (m *Machine) representative(v value, what string) value {
	s, ok := v.(symv)
	if !ok {
		return v
	}
	m.ensureModel(what)
	val := smt.Eval(s.t, m.model)
	m.assume(m.ctx.Eq(s.t, m.ctx.BV(val, s.t.W)))
	m.note("one representative value explored for " + what)
	return fromBits(s.k, val)
}

// concretizeRange is concretize for values that index/size memory.
func (m *Machine) concretizeRange(v value, why string) value {
	s, ok := v.(symv)
	if !ok || s.k == types.Bool {
		return m.concretize(v, why)
	}
	// values up to the split bound are case-split exhaustively; larger ones
	// are explored for one representative (only memory shape depends on them;
	// the code's own bounds checks were already decided symbolically)
	k := uint64(m.cfg.MaxConcretize / 2)
	w := s.t.W
	var small *smt.Term
	if kindSigned(s.k) {
		small = m.ctx.And(m.ctx.Cmp(smt.OpSle, m.ctx.BV(0, w), s.t), m.ctx.Cmp(smt.OpSle, s.t, m.ctx.BV(k, w)))
	} else {
		small = m.ctx.Cmp(smt.OpUle, s.t, m.ctx.BV(k, w))
	}
	if m.decide(mkScalar(small, types.Bool), why+"-small") {
		return m.concretize(v, why)
	}
	return m.representative(v, why+" above split bound")
}

// choose is an engine-level n-way fork with no solver involvement (used for
// unspecified-but-finite language choices such as map iteration order).
func (m *Machine) choose(n int, why string) int {
	if n <= 1 {
		return 0
	}
	if m.conc != nil {
		c := 0
		if m.conc.cpos < len(m.conc.choices) {
			c = m.conc.choices[m.conc.cpos]
		}
		m.conc.cpos++
		if c >= n {
			panic(pathEnd{"mismatch", fmt.Sprintf("concrete replay: choice %d out of %d at %s", c, n, why)})
		}
		m.out.Choices = append(m.out.Choices, c)
		return c
	}
	if d, ok := m.nextDecision(); ok {
		if d.Kind != 'n' {
			panic(engineFault{fmt.Sprintf("trail mismatch at %d: want choose, have %c (%s)", m.pos-1, d.Kind, why)})
		}
		m.out.Choices = append(m.out.Choices, d.Choice)
		return d.Choice
	}
	for i := 1; i < n; i++ {
		var cp map[string]uint64
		if m.model != nil {
			cp = make(map[string]uint64, len(m.model))
			for k, v := range m.model {
				cp[k] = v
			}
		}
		m.queueAlt(Decision{Kind: 'n', Choice: i, Known: true, Model: cp})
	}
	m.record(Decision{Kind: 'n', Choice: 0})
	m.out.Choices = append(m.out.Choices, 0)
	return 0
}

// concreteRun drives a solver-free re-execution of one counterexample.
type concreteRun struct {
	inputs  []ReplayInput
	ipos    int
	choices []int
	cpos    int
}

// ---------------------------------------------------------------------------
// inputs

func (m *Machine) newInput(kind string, k types.BasicKind) value {
	if m.conc != nil {
		var v uint64
		if m.conc.ipos < len(m.conc.inputs) {
			v = m.conc.inputs[m.conc.ipos].Val
		}
		m.conc.ipos++
		m.inputs = append(m.inputs, Input{Name: fmt.Sprintf("in%d_%s", len(m.inputs), kind), Kind: kind})
		return fromBits(k, v)
	}
	name := fmt.Sprintf("in%d_%s", len(m.inputs), kind)
	t := m.ctx.Var(name, kindWidth(k))
	m.inputs = append(m.inputs, Input{Name: name, Kind: kind, Term: t})
	return symv{t, k}
}

func (m *Machine) newInputBytes(kind string, n int) []value {
	if m.conc != nil {
		var bs []int
		if m.conc.ipos < len(m.conc.inputs) {
			bs = m.conc.inputs[m.conc.ipos].Bytes
		}
		m.conc.ipos++
		m.inputs = append(m.inputs, Input{Name: fmt.Sprintf("in%d_%s", len(m.inputs), kind), Kind: kind, Len: n})
		out := make([]value, n)
		for i := range out {
			var b uint8
			if i < len(bs) {
				b = uint8(bs[i])
			}
			out[i] = b
		}
		return out
	}
	idx := len(m.inputs)
	in := Input{Name: fmt.Sprintf("in%d_%s", idx, kind), Kind: kind, Len: n}
	out := make([]value, n)
	for i := 0; i < n; i++ {
		t := m.ctx.Var(fmt.Sprintf("in%d_%s_%d", idx, kind, i), 8)
		in.Byts = append(in.Byts, t)
		out[i] = symv{t, types.Uint8}
	}
	m.inputs = append(m.inputs, in)
	return out
}

// ---------------------------------------------------------------------------
// assertions

func (m *Machine) assertV(cond value, name, msg string) {
	m.out.Asserts++
	if b, ok := cond.(bool); ok {
		if !b {
			m.violate(name, msg, nil)
		}
		return
	}
	m.out.AssertsSym++
	t := cond.(symv).t
	neg := m.ctx.Not(t)
	r, model := m.solver.Check([]*smt.Term{neg}, m.inputVars())
	switch r {
	case smt.Sat:
		m.violate(name, msg, model)
	case smt.Unknown:
		m.out.Unknowns++
		m.note("solver unknown on assertion " + name)
		panic(pathEnd{"unknown", "solver unknown on assertion " + name})
	}
	m.assume(t)
}

func (m *Machine) violate(name, msg string, model map[string]uint64) {
	if m.conc != nil {
		m.out.Violation = &Violation{Name: name, Msg: msg, Model: map[string]uint64{}}
		panic(pathEnd{"violation", name + ": " + msg})
	}
	if model == nil {
		r, mod := m.solver.Check(nil, m.inputVars())
		if r == smt.Unsat {
			panic(pathEnd{"infeasible", "violation on infeasible path"})
		}
		model = mod
		if model == nil {
			model = map[string]uint64{}
		}
	}
	m.out.Violation = &Violation{Name: name, Msg: msg, Model: model}
	panic(pathEnd{"violation", name + ": " + msg})
}

func (m *Machine) onAllocOverBudget(what string) {
	m.violate("alloc-within-budget", fmt.Sprintf("allocation request exceeds budget %d in %s", m.cfg.AllocBudget, what), nil)
}

// ---------------------------------------------------------------------------
// goroutines: cooperative, deterministic (FIFO run-to-completion)

type goroutine struct {
	id     int
	wake   chan struct{}
	ready  func() bool // nil = runnable
	done   bool
	what   string
	parked bool
}

func (m *Machine) spawn(fn value, args []value, pos token.Pos) {
	g := &goroutine{id: len(m.gs), wake: make(chan struct{}, 1), what: describeFn(fn)}
	m.gs = append(m.gs, g)
	m.raceFork(g, m.raceForkExtra)
	m.raceForkExtra = nil
	go func() {
		select {
		case <-g.wake:
		case <-m.killed:
			return
		}
		var res any
		func() {
			defer func() { res = recover() }()
			m.call(nil, pos, fn, args)
		}()
		g.done = true
		if res != nil {
			if pe, ok := res.(pathEnd); ok && pe.kind == "killed" {
				return
			}
			if tp, ok := res.(targetPanic); ok {
				// uncaught panic in a goroutine crashes the program
				res = pathEnd{"panic", "goroutine " + g.what + ": " + toString(tp.v)}
			}
			m.finish(res)
			return
		}
		// handing the baton on may itself end the path (decision budget, a
		// choice in concrete replay that does not fit): that is a path outcome,
		// never a crash of the engine
		func() {
			defer func() {
				if r := recover(); r != nil {
					if pe, ok := r.(pathEnd); ok && pe.kind == "killed" {
						return
					}
					m.finish(r)
				}
			}()
			m.schedule(true)
		}()
	}()
}

func describeFn(fn value) string {
	switch f := fn.(type) {
	case *ssa.Function:
		return f.String()
	case *closure:
		return f.Fn.String()
	}
	return fmt.Sprintf("%T", fn)
}

func (m *Machine) finish(res any) {
	select {
	case m.done <- res:
	default:
	}
}

// schedule passes the baton to the next runnable goroutine. If exiting, the
// current goroutine does not wait to be resumed.
func (m *Machine) schedule(exiting bool) {
	cur := m.cur
	n := len(m.gs)
	start := 0
	for i, g := range m.gs {
		if g == cur {
			start = i + 1
			break
		}
	}
	var next *goroutine
	for {
		n = len(m.gs)
		var cands []*goroutine
		for k := 0; k < n; k++ {
			g := m.gs[(start+k)%n]
			if g.done || g == cur {
				continue
			}
			if g.ready == nil || g.ready() {
				cands = append(cands, g)
				if !m.preemptMode || !m.nextChoice {
					break
				}
			}
		}
		if len(cands) > 0 {
			next = cands[0]
			if len(cands) > 1 {
				next = cands[m.choose(len(cands), "sched-next")]
			}
		}
		if next != nil {
			break
		}
		if !exiting && (cur.ready == nil || cur.ready()) {
			return // nobody else can run; keep going
		}
		// everybody is blocked: let time pass if a timer is pending
		if t := m.nextTimer(); t != nil {
			m.fireTimerNoYield(t)
			continue
		}
		break
	}
	if next == nil {
		if exiting {
			// all remaining goroutines (if any) are blocked; the main goroutine
			// must be among them, otherwise the path would have ended.
			m.finish(pathEnd{"deadlock", m.blockedSummary()})
			return
		}
		m.finish(pathEnd{"deadlock", m.blockedSummary()})
		<-m.killed
		panic(pathEnd{"killed", ""})
	}
	m.cur = next
	next.ready = nil
	next.wake <- struct{}{}
	if exiting {
		return
	}
	select {
	case <-cur.wake:
	case <-m.killed:
		panic(pathEnd{"killed", ""})
	}
}

func (m *Machine) blockedSummary() string {
	s := "all goroutines blocked:"
	for _, g := range m.gs {
		if !g.done {
			s += fmt.Sprintf(" [g%d %s]", g.id, g.what)
		}
	}
	return s
}

// block parks the current goroutine until pred holds.
func (m *Machine) block(what string, pred func() bool) {
	if pred() {
		return
	}
	cur := m.cur
	cur.ready = pred
	old := cur.what
	cur.what = old + " blocked on " + what
	m.schedule(false)
	cur.what = old
	cur.ready = nil
	if !pred() {
		panic(engineFault{"woken with false predicate: " + what})
	}
}

// yield lets every other runnable goroutine run until it blocks or ends.
func (m *Machine) yield() {
	cur := m.cur
	for {
		other := false
		for _, g := range m.gs {
			if g != cur && !g.done && (g.ready == nil || g.ready()) {
				other = true
				break
			}
		}
		if !other {
			return
		}
		cur.ready = func() bool { return true }
		m.scheduleAwayFrom(cur)
		cur.ready = nil
	}
}

// yieldOnce hands the baton to the other runnable goroutines once and returns
// when this goroutine is scheduled again (unlike yield it does not wait for
// the others to become quiescent, so two goroutines may take turns).
func (m *Machine) yieldOnce() {
	cur := m.cur
	for _, g := range m.gs {
		if g != cur && !g.done && (g.ready == nil || g.ready()) {
			cur.ready = func() bool { return true }
			m.scheduleAwayFrom(cur)
			cur.ready = nil
			return
		}
	}
}

// schedPoint is called before every visible operation. In preemptive mode it
// may hand the baton to another runnable goroutine (an n-way engine choice
// recorded in the trail); the preempted goroutine stays runnable.
func (m *Machine) schedPoint(what string) {
	if !m.preemptMode || m.preemptLeft <= 0 || m.seg != nil || m.tsSetup != nil || m.cur == nil {
		return
	}
	cur := m.cur
	var others []*goroutine
	for _, g := range m.gs {
		if g != cur && !g.done && (g.ready == nil || g.ready()) {
			others = append(others, g)
		}
	}
	if len(others) == 0 {
		return
	}
	c := m.choose(1+len(others), "sched-preempt")
	if c == 0 {
		return
	}
	m.preemptLeft--
	m.out.Preempts++
	next := others[c-1]
	cur.ready = func() bool { return true }
	m.cur = next
	next.ready = nil
	next.wake <- struct{}{}
	select {
	case <-cur.wake:
	case <-m.killed:
		panic(pathEnd{"killed", ""})
	}
	cur.ready = nil
}

// scheduleAwayFrom runs some other runnable goroutine; returns when cur is resumed.
func (m *Machine) scheduleAwayFrom(cur *goroutine) {
	m.schedule(false)
}

// ---------------------------------------------------------------------------
// channels

type vchan struct {
	buf    []value
	cap    int
	closed bool
	sendq  []*pendingSend
	recvW  int // receivers currently waiting (for unbuffered rendezvous)
	elemT  types.Type
	shared     bool  // tsgen: closed-ness is a registered state cell
	closedCell value // bool or symbolic bool (tsgen)
}

type pendingSend struct {
	v     value
	taken bool
}

func (m *Machine) newChan(n int, elemT types.Type) *vchan {
	return &vchan{cap: n, elemT: elemT}
}

func (m *Machine) chanSend(ch *vchan, v value) {
	m.schedPoint("chan send")
	if ch != nil {
		m.raceAcqRel(ch)
		defer m.raceAcquire(ch)
	}
	if ch == nil {
		m.block("send on nil chan", func() bool { return false })
	}
	if ch.closed {
		panic(targetPanic{m.plainErr("send on closed channel")})
	}
	if len(ch.buf) < ch.cap {
		ch.buf = append(ch.buf, copyVal(v))
		return
	}
	ps := &pendingSend{v: copyVal(v)}
	ch.sendq = append(ch.sendq, ps)
	m.block("chan send", func() bool { return ps.taken || ch.closed })
	if !ps.taken {
		panic(targetPanic{m.plainErr("send on closed channel")})
	}
}

func (ch *vchan) canRecv() bool {
	return ch != nil && (len(ch.buf) > 0 || len(ch.sendq) > 0 || ch.closed)
}

func (m *Machine) chanRecv(ch *vchan) (value, bool) {
	m.schedPoint("chan recv")
	if ch != nil && m.race != nil {
		m.raceRelease(ch)
		defer m.raceAcquire(ch)
	}
	if m.seg != nil && ch != nil {
		if !ch.shared {
			panic(unsupported{"receive on a channel that is not registered with vrtSharedChan"})
		}
		if m.decide(ch.closedCell, "chan-closed") {
			return nil, false
		}
		panic(blockedSignal{"chan recv"})
	}
	if ch == nil {
		m.block("recv on nil chan", func() bool { return false })
	}
	m.block("chan recv", ch.canRecv)
	return ch.take()
}

func (ch *vchan) take() (value, bool) {
	if len(ch.buf) > 0 {
		v := ch.buf[0]
		ch.buf = ch.buf[1:]
		if len(ch.sendq) > 0 {
			ps := ch.sendq[0]
			ch.sendq = ch.sendq[1:]
			ch.buf = append(ch.buf, ps.v)
			ps.taken = true
		}
		return v, true
	}
	if len(ch.sendq) > 0 {
		ps := ch.sendq[0]
		ch.sendq = ch.sendq[1:]
		ps.taken = true
		return ps.v, true
	}
	return nil, false // closed
}

func (m *Machine) chanClose(ch *vchan) {
	if ch == nil {
		panic(targetPanic{m.plainErr("close of nil channel")})
	}
	if m.seg != nil {
		if !ch.shared {
			panic(unsupported{"close of a channel that is not registered with vrtSharedChan"})
		}
		if m.decide(ch.closedCell, "chan-closed") {
			panic(targetPanic{m.plainErr("close of closed channel")})
		}
		ch.closedCell = true
		return
	}
	if ch.closed {
		panic(targetPanic{m.plainErr("close of closed channel")})
	}
	ch.closed = true
}

func (m *Machine) plainErr(msg string) value {
	return iface{t: m.prog.runtimeErrorT, v: msg}
}

func (m *Machine) doSelect(fr *frame, instr *ssa.Select) value {
	m.schedPoint("select")
	type cs struct {
		ch   *vchan
		send bool
		v    value
	}
	var cases []cs
	for _, st := range instr.States {
		ch, _ := fr.get(st.Chan).(*vchan)
		c := cs{ch: ch, send: st.Dir == types.SendOnly}
		if c.send {
			c.v = fr.get(st.Send)
		}
		cases = append(cases, c)
	}
	if m.seg != nil {
		// tsgen: only receives from registered signal channels (ready iff closed)
		chosen := -1
		for i, c := range cases {
			if c.send || c.ch == nil || !c.ch.shared {
				panic(unsupported{"select case on a channel that is not registered with vrtSharedChan"})
			}
			if m.decide(c.ch.closedCell, "select-chan-closed") {
				chosen = i
				break
			}
		}
		if chosen < 0 && instr.Blocking {
			panic(blockedSignal{"select"})
		}
		r := tuple{chosen, false}
		for _, st := range instr.States {
			if st.Dir == types.RecvOnly {
				r = append(r, zero(st.Chan.Type().Underlying().(*types.Chan).Elem()))
			}
		}
		return r
	}
	readyIdx := func() int {
		for i, c := range cases {
			if c.ch == nil {
				continue
			}
			if c.send {
				if c.ch.closed || len(c.ch.buf) < c.ch.cap || c.ch.recvW > 0 {
					return i
				}
			} else if c.ch.canRecv() {
				return i
			}
		}
		return -1
	}
	chosen := readyIdx()
	if chosen < 0 {
		if !instr.Blocking {
			chosen = -1
		} else {
			for _, c := range cases {
				if c.ch != nil && !c.send {
					c.ch.recvW++
				}
			}
			m.block("select", func() bool { return readyIdx() >= 0 })
			for _, c := range cases {
				if c.ch != nil && !c.send {
					c.ch.recvW--
				}
			}
			chosen = readyIdx()
		}
	}
	recvOk := false
	var recv value
	if chosen >= 0 {
		c := cases[chosen]
		if c.send {
			m.chanSend(c.ch, c.v)
		} else {
			recv, recvOk = c.ch.take()
			m.raceAcqRel(c.ch)
		}
	}
	r := tuple{chosen, recvOk}
	for i, st := range instr.States {
		if st.Dir == types.RecvOnly {
			var v value
			if i == chosen && recvOk {
				v = recv
			} else {
				v = zero(st.Chan.Type().Underlying().(*types.Chan).Elem())
			}
			r = append(r, v)
		}
	}
	return r
}

// ---------------------------------------------------------------------------

func sortedKeys(m map[string]bool) []string {
	var ks []string
	for k := range m {
		ks = append(ks, k)
	}
	sort.Strings(ks)
	return ks
}
