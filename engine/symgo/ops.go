package symgo

import (
	"fmt"
	"go/constant"
	"go/token"
	"go/types"
	"math"
	"unsafe"

	"golang.org/x/tools/go/ssa"

	"verif/engine/smt"
)

// targetPanic is a panic of the interpreted program (recoverable by it).
type targetPanic struct {
	v value
}

func (p targetPanic) String() string { return toString(p.v) }

// engineFault is a bug or limitation of the engine itself; never recoverable
// by the interpreted program.
type engineFault struct{ msg string }

// unsupported is raised when the path needs a construct outside the encoding.
type unsupported struct{ what string }

// pathEnd aborts the current path for a regular reason.
type pathEnd struct {
	kind string // "infeasible", "violation", "budget", "fatal", "deadlock", "killed"
	msg  string
}

func isEngineAbort(r any) bool {
	switch r.(type) {
	case engineFault, unsupported, pathEnd, cutSignal, blockedSignal:
		return true
	}
	return false
}

func constValue(c *ssa.Const) value {
	if c.Value == nil {
		return zero(c.Type())
	}
	if t, ok := c.Type().Underlying().(*types.Basic); ok {
		switch t.Kind() {
		case types.Bool, types.UntypedBool:
			return constant.BoolVal(c.Value)
		case types.Int, types.UntypedInt:
			return int(c.Int64())
		case types.Int8:
			return int8(c.Int64())
		case types.Int16:
			return int16(c.Int64())
		case types.Int32, types.UntypedRune:
			return int32(c.Int64())
		case types.Int64:
			return c.Int64()
		case types.Uint:
			return uint(c.Uint64())
		case types.Uint8:
			return uint8(c.Uint64())
		case types.Uint16:
			return uint16(c.Uint64())
		case types.Uint32:
			return uint32(c.Uint64())
		case types.Uint64:
			return c.Uint64()
		case types.Uintptr:
			return uintptr(c.Uint64())
		case types.Float32:
			return float32(c.Float64())
		case types.Float64, types.UntypedFloat:
			return c.Float64()
		case types.Complex64:
			return complex64(c.Complex128())
		case types.Complex128, types.UntypedComplex:
			return c.Complex128()
		case types.String, types.UntypedString:
			if c.Value.Kind() == constant.String {
				return constant.StringVal(c.Value)
			}
			return string(rune(c.Int64()))
		}
	}
	panic(engineFault{fmt.Sprintf("constValue: %s", c)})
}

func asInt64(x value) int64 {
	switch x := x.(type) {
	case int:
		return int64(x)
	case int8:
		return int64(x)
	case int16:
		return int64(x)
	case int32:
		return int64(x)
	case int64:
		return x
	case uint:
		return int64(x)
	case uint8:
		return int64(x)
	case uint16:
		return int64(x)
	case uint32:
		return int64(x)
	case uint64:
		return int64(x)
	case uintptr:
		return int64(x)
	}
	panic(engineFault{fmt.Sprintf("cannot convert %T to int64", x)})
}

func isReflectValueType(t types.Type) bool {
	n, ok := t.(*types.Named)
	if !ok {
		return false
	}
	o := n.Obj()
	return o.Pkg() != nil && o.Pkg().Path() == "reflect" && o.Name() == "Value"
}

func isNamed(t types.Type, pkg, name string) bool {
	n, ok := types.Unalias(t).(*types.Named)
	if !ok {
		return false
	}
	o := n.Obj()
	return o.Pkg() != nil && o.Pkg().Path() == pkg && o.Name() == name
}

// zero returns a new zero value of type t.
func zero(t types.Type) value {
	switch t := t.(type) {
	case *types.Basic:
		if t.Kind() == types.UntypedNil {
			panic(engineFault{"untyped nil has no zero value"})
		}
		if t.Info()&types.IsUntyped != 0 {
			t = types.Default(t).(*types.Basic)
		}
		switch t.Kind() {
		case types.Bool:
			return false
		case types.Int:
			return int(0)
		case types.Int8:
			return int8(0)
		case types.Int16:
			return int16(0)
		case types.Int32:
			return int32(0)
		case types.Int64:
			return int64(0)
		case types.Uint:
			return uint(0)
		case types.Uint8:
			return uint8(0)
		case types.Uint16:
			return uint16(0)
		case types.Uint32:
			return uint32(0)
		case types.Uint64:
			return uint64(0)
		case types.Uintptr:
			return uintptr(0)
		case types.Float32:
			return float32(0)
		case types.Float64:
			return float64(0)
		case types.Complex64:
			return complex64(0)
		case types.Complex128:
			return complex128(0)
		case types.String:
			return ""
		case types.UnsafePointer:
			return unsafe.Pointer(nil)
		default:
			panic(engineFault{fmt.Sprint("zero for unexpected type:", t)})
		}
	case *types.Pointer:
		return (*value)(nil)
	case *types.Array:
		a := make(array, t.Len())
		for i := range a {
			a[i] = zero(t.Elem())
		}
		return a
	case *types.Named:
		if isReflectValueType(t) {
			return rvalue{}
		}
		return zero(t.Underlying())
	case *types.Alias:
		return zero(types.Unalias(t))
	case *types.Interface:
		return iface{}
	case *types.Slice:
		return []value(nil)
	case *types.Struct:
		s := make(structure, t.NumFields())
		for i := range s {
			s[i] = zero(t.Field(i).Type())
		}
		return s
	case *types.Tuple:
		if t.Len() == 1 {
			return zero(t.At(0).Type())
		}
		s := make(tuple, t.Len())
		for i := range s {
			s[i] = zero(t.At(i).Type())
		}
		return s
	case *types.Chan:
		return (*vchan)(nil)
	case *types.Map:
		return (*omap)(nil)
	case *types.Signature:
		return (*ssa.Function)(nil)
	case *types.TypeParam:
		panic(engineFault{"zero of type parameter " + t.String()})
	}
	panic(engineFault{fmt.Sprint("zero: unexpected ", t)})
}

// ---------------------------------------------------------------------------
// runtime errors of the interpreted program

func (m *Machine) runtimeErr(msg string) value {
	return iface{t: m.prog.runtimeErrorT, v: msg}
}

func (m *Machine) rtPanic(msg string) {
	panic(targetPanic{m.runtimeErr(msg)})
}

// concreteIndex returns idx as an int64 after checking 0 <= idx < n
// (the check is a branch; a symbolic idx is concretised by forking).
func (m *Machine) concreteIndex(idx value, n int, what string) int64 {
	if s, ok := idx.(symv); ok {
		w := kindWidth(s.k)
		var inb *smt.Term
		nn := m.ctx.BV(uint64(n), w)
		if kindSigned(s.k) {
			inb = m.ctx.And(m.ctx.Cmp(smt.OpSle, m.ctx.BV(0, w), s.t), m.ctx.Cmp(smt.OpSlt, s.t, nn))
		} else {
			inb = m.ctx.Cmp(smt.OpUlt, s.t, nn)
		}
		if !m.decide(mkScalar(inb, types.Bool), "index-in-range") {
			m.rtPanic(fmt.Sprintf("index out of range [sym] with length %d (%s)", n, what))
		}
		return asInt64(m.concretize(idx, "index"))
	}
	i := asInt64(idx)
	if k, _ := kindOf(idx); !kindSigned(k) && k != types.Bool {
		if bitsOf(idx) >= uint64(n) {
			m.rtPanic(fmt.Sprintf("index out of range [%d] with length %d", bitsOf(idx), n))
		}
		return i
	}
	if i < 0 || i >= int64(n) {
		m.rtPanic(fmt.Sprintf("index out of range [%d] with length %d", i, n))
	}
	return i
}

// sliceBound concretises an optional slice bound.
func (m *Machine) sliceBound(v value, def int64) int64 {
	if v == nil {
		return def
	}
	if isSym(v) {
		v = m.concretizeRange(v, "slice-bound")
	}
	if k, _ := kindOf(v); !kindSigned(k) {
		if bitsOf(v) > uint64(math.MaxInt64) {
			return math.MaxInt64
		}
	}
	return asInt64(v)
}

// slice returns x[lo:hi:max].
func (m *Machine) slice(x, lo, hi, max value) value {
	var Len, Cap int
	switch x := x.(type) {
	case string, sstr:
		Len = strLen(x)
		Cap = Len
	case []value:
		Len = len(x)
		Cap = cap(x)
	case *value:
		if x == nil {
			m.rtPanic("invalid memory address or nil pointer dereference")
		}
		a := (*x).(array)
		Len = len(a)
		Cap = cap(a)
	}
	l := m.sliceBound(lo, 0)
	h := m.sliceBound(hi, int64(Len))
	mx := m.sliceBound(max, int64(Cap))
	_, isStr := x.(string)
	_, isSstr := x.(sstr)
	if isStr || isSstr {
		if l < 0 || h < l || h > int64(Len) {
			m.rtPanic(fmt.Sprintf("slice bounds out of range [%d:%d] with length %d", l, h, Len))
		}
	} else {
		if l < 0 || h < l || mx < h || mx > int64(Cap) {
			m.rtPanic(fmt.Sprintf("slice bounds out of range [%d:%d:%d] with capacity %d", l, h, mx, Cap))
		}
	}
	switch x := x.(type) {
	case string:
		return x[l:h]
	case sstr:
		return mkString(x.b[l:h])
	case []value:
		if x == nil && l == 0 && h == 0 {
			return []value(nil)
		}
		return x[l:h:mx]
	case *value:
		a := (*x).(array)
		return []value(a)[l:h:mx]
	}
	panic(engineFault{fmt.Sprintf("slice: unexpected X type: %T", x)})
}

func (m *Machine) lookup(instr *ssa.Lookup, x, idx value) value {
	switch x := x.(type) {
	case *omap:
		v, ok := m.omapGet(x, idx)
		if !ok {
			v = zero(instr.X.Type().Underlying().(*types.Map).Elem())
		} else {
			v = copyVal(v)
		}
		if instr.CommaOk {
			v = tuple{v, ok}
		}
		return v
	case string, sstr:
		b := strBytes(x)
		i := m.concreteIndex(idx, len(b), "string index")
		return b[i]
	}
	panic(engineFault{fmt.Sprintf("unexpected x type in Lookup: %T", x)})
}

// ---------------------------------------------------------------------------
// binary operators

func cmpOp(op token.Token, signed bool) (smt.Op, bool, bool) {
	// returns op, swap, negate
	switch op {
	case token.LSS:
		if signed {
			return smt.OpSlt, false, false
		}
		return smt.OpUlt, false, false
	case token.LEQ:
		if signed {
			return smt.OpSle, false, false
		}
		return smt.OpUle, false, false
	case token.GTR:
		if signed {
			return smt.OpSlt, true, false
		}
		return smt.OpUlt, true, false
	case token.GEQ:
		if signed {
			return smt.OpSle, true, false
		}
		return smt.OpUle, true, false
	}
	panic("cmpOp")
}

func (m *Machine) symBinop(op token.Token, x, y value) value {
	c := m.ctx
	kx, _ := kindOf(x)
	tx := m.termOf(x)
	if kx == types.Bool {
		ty := m.termOf(y)
		switch op {
		case token.EQL:
			return mkScalar(c.Eq(tx, ty), types.Bool)
		case token.NEQ:
			return mkScalar(c.Ne(tx, ty), types.Bool)
		case token.LAND, token.AND:
			return mkScalar(c.And(tx, ty), types.Bool)
		case token.LOR, token.OR:
			return mkScalar(c.Or(tx, ty), types.Bool)
		}
		panic(engineFault{"symBinop bool " + op.String()})
	}
	w := kindWidth(kx)
	signed := kindSigned(kx)
	switch op {
	case token.SHL, token.SHR:
		ky, _ := kindOf(y)
		ty := m.termOf(y)
		if kindSigned(ky) {
			neg := c.Cmp(smt.OpSlt, ty, c.BV(0, ty.W))
			if m.decide(mkScalar(neg, types.Bool), "negative-shift") {
				m.rtPanic("negative shift amount")
			}
		}
		// bring count to operand width, saturating
		var cnt *smt.Term
		if ty.W > w {
			big := c.Cmp(smt.OpUle, c.BV(uint64(w), ty.W), ty)
			cnt = c.Ite(big, c.BV(uint64(w), w), c.Extract(ty, w-1, 0))
		} else {
			cnt = c.ZExt(ty, w)
		}
		var r *smt.Term
		switch {
		case op == token.SHL:
			r = c.Bin(smt.OpShl, tx, cnt)
		case signed:
			r = c.Bin(smt.OpAShr, tx, cnt)
		default:
			r = c.Bin(smt.OpLShr, tx, cnt)
		}
		return mkScalar(r, kx)
	}
	ty := m.termOf(y)
	if ty.W != tx.W {
		panic(engineFault{fmt.Sprintf("symBinop %s: widths %d/%d (%T,%T)", op, tx.W, ty.W, x, y)})
	}
	switch op {
	case token.ADD:
		return mkScalar(c.Bin(smt.OpAdd, tx, ty), kx)
	case token.SUB:
		return mkScalar(c.Bin(smt.OpSub, tx, ty), kx)
	case token.MUL:
		return mkScalar(c.Bin(smt.OpMul, tx, ty), kx)
	case token.QUO, token.REM:
		z := c.Eq(ty, c.BV(0, w))
		if m.decide(mkScalar(z, types.Bool), "divide-by-zero") {
			m.rtPanic("integer divide by zero")
		}
		var o smt.Op
		switch {
		case op == token.QUO && signed:
			o = smt.OpSDiv
		case op == token.QUO:
			o = smt.OpUDiv
		case signed:
			o = smt.OpSRem
		default:
			o = smt.OpURem
		}
		return mkScalar(c.Bin(o, tx, ty), kx)
	case token.AND:
		return mkScalar(c.Bin(smt.OpBvAnd, tx, ty), kx)
	case token.OR:
		return mkScalar(c.Bin(smt.OpBvOr, tx, ty), kx)
	case token.XOR:
		return mkScalar(c.Bin(smt.OpBvXor, tx, ty), kx)
	case token.AND_NOT:
		return mkScalar(c.Bin(smt.OpBvAnd, tx, c.BvNot(ty)), kx)
	case token.EQL:
		return mkScalar(c.Eq(tx, ty), types.Bool)
	case token.NEQ:
		return mkScalar(c.Ne(tx, ty), types.Bool)
	case token.LSS, token.LEQ, token.GTR, token.GEQ:
		o, swap, _ := cmpOp(op, signed)
		a, b := tx, ty
		if swap {
			a, b = b, a
		}
		return mkScalar(c.Cmp(o, a, b), types.Bool)
	}
	panic(engineFault{"symBinop: " + op.String()})
}

func isStrVal(x value) bool {
	switch x.(type) {
	case string, sstr:
		return true
	}
	return false
}

// strCompare builds the term for x < y / x <= y etc. over possibly symbolic strings.
func (m *Machine) strBinop(op token.Token, x, y value) value {
	_, xs := x.(sstr)
	_, ys := y.(sstr)
	if !xs && !ys {
		a, b := x.(string), y.(string)
		switch op {
		case token.ADD:
			return a + b
		case token.EQL:
			return a == b
		case token.NEQ:
			return a != b
		case token.LSS:
			return a < b
		case token.LEQ:
			return a <= b
		case token.GTR:
			return a > b
		case token.GEQ:
			return a >= b
		}
		panic(engineFault{"strBinop " + op.String()})
	}
	bx, by := strBytes(x), strBytes(y)
	c := m.ctx
	switch op {
	case token.ADD:
		out := make([]value, 0, len(bx)+len(by))
		out = append(out, bx...)
		out = append(out, by...)
		return mkString(out)
	case token.EQL, token.NEQ:
		var eq *smt.Term
		if len(bx) != len(by) {
			eq = c.False
		} else {
			conj := make([]*smt.Term, len(bx))
			for i := range bx {
				conj[i] = c.Eq(m.termOf(bx[i]), m.termOf(by[i]))
			}
			eq = c.And(conj...)
		}
		if op == token.NEQ {
			eq = c.Not(eq)
		}
		return mkScalar(eq, types.Bool)
	case token.LSS, token.LEQ, token.GTR, token.GEQ:
		if op == token.GTR || op == token.GEQ {
			bx, by = by, bx
			if op == token.GTR {
				op = token.LSS
			} else {
				op = token.LEQ
			}
		}
		// lexicographic x < y (or <=): fold from the end
		n := len(bx)
		if len(by) < n {
			n = len(by)
		}
		var tail *smt.Term
		if op == token.LSS {
			tail = c.Bool(len(bx) < len(by))
		} else {
			tail = c.Bool(len(bx) <= len(by))
		}
		for i := n - 1; i >= 0; i-- {
			a, b := m.termOf(bx[i]), m.termOf(by[i])
			tail = c.Or(c.Cmp(smt.OpUlt, a, b), c.And(c.Eq(a, b), tail))
		}
		return mkScalar(tail, types.Bool)
	}
	panic(engineFault{"strBinop " + op.String()})
}

// tokEq decides ==/!= on token-table values without forking on the table
// index: the comparison is the disjunction, over the pairs of table entries
// that compare equal concretely, of "x is entry i and y is entry j".
func (m *Machine) tokEq(t types.Type, x, y value) (res value, ok bool) {
	_, xt := x.(symtok)
	_, yt := y.(symtok)
	if !xt && !yt {
		return nil, false
	}
	tab := m.tokTable()
	type cand struct {
		cond *smt.Term
		v    value
	}
	cands := func(v value) []cand {
		st, is := v.(symtok)
		if !is {
			return []cand{{m.ctx.True, v}}
		}
		var out []cand
		for i, tv := range tab {
			out = append(out, cand{m.ctx.Eq(st.idx, m.ctx.BV(uint64(i), tokW)), tv})
		}
		return out
	}
	staticIface := false
	if t != nil {
		_, staticIface = t.Underlying().(*types.Interface)
	}
	var disj []*smt.Term
	for _, cx := range cands(x) {
		for _, cy := range cands(y) {
			if cx.cond == m.ctx.False || cy.cond == m.ctx.False {
				continue
			}
			_, xs := cx.v.([]value)
			_, ys := cy.v.([]value)
			if staticIface && (xs || ys) {
				continue // a slice token can never be the operand of an interface comparison
			}
			var eq value
			bad := false
			func() {
				defer func() {
					if r := recover(); r != nil {
						bad = true
					}
				}()
				eq = m.binop(token.EQL, t, cx.v, cy.v)
			}()
			if bad {
				return nil, false
			}
			switch e := eq.(type) {
			case bool:
				if e {
					disj = append(disj, m.ctx.And(cx.cond, cy.cond))
				}
			case symv:
				disj = append(disj, m.ctx.And(cx.cond, cy.cond, e.t))
			default:
				return nil, false
			}
		}
	}
	return mkScalar(m.ctx.Or(disj...), types.Bool), true
}

func (m *Machine) binop(op token.Token, t types.Type, x, y value) value {
	if op == token.EQL || op == token.NEQ {
		if r, ok := m.tokEq(t, x, y); ok {
			if op == token.EQL {
				return r
			}
			if b, isB := r.(bool); isB {
				return !b
			}
			return mkScalar(m.ctx.Not(r.(symv).t), types.Bool)
		}
	}
	xtok := false
	if _, ok := x.(symtok); ok {
		x = m.resolveTok(x)
		xtok = true
	}
	ytok := false
	if _, ok := y.(symtok); ok {
		y = m.resolveTok(y)
		ytok = true
	}
	if xtok || ytok {
		_, xIsIface := x.(iface)
		_, yIsIface := y.(iface)
		_, xIsSlice := x.([]value)
		_, yIsSlice := y.([]value)
		if (xIsIface && yIsSlice) || (xIsSlice && yIsIface) {
			panic(pathEnd{"infeasible", "token of the wrong shape in a comparison"})
		}
		if t != nil {
			if _, staticIface := t.Underlying().(*types.Interface); staticIface && (xIsSlice || yIsSlice) {
				panic(pathEnd{"infeasible", "token of the wrong shape in a comparison"})
			}
		}
	}
	if isSym(x) || isSym(y) {
		return m.symBinop(op, x, y)
	}
	if isStrVal(x) && isStrVal(y) {
		return m.strBinop(op, x, y)
	}
	switch op {
	case token.EQL:
		return m.eqnil(t, x, y)
	case token.NEQ:
		r := m.eqnil(t, x, y)
		if b, ok := r.(bool); ok {
			return !b
		}
		return mkScalar(m.ctx.Not(r.(symv).t), types.Bool)
	case token.QUO, token.REM:
		if k, ok := kindOf(y); ok && k != types.Bool && bitsOf(y) == 0 {
			m.rtPanic("integer divide by zero")
		}
	case token.SHL, token.SHR:
		if k, _ := kindOf(y); kindSigned(k) && asInt64(y) < 0 {
			m.rtPanic("negative shift amount")
		}
	}
	return concBinop(op, x, y)
}

func (m *Machine) eqnil(t types.Type, x, y value) value {
	switch t.Underlying().(type) {
	case *types.Map, *types.Signature, *types.Slice:
		switch x := x.(type) {
		case *omap:
			return (x != nil) == (y.(*omap) != nil)
		case *ssa.Function:
			switch y := y.(type) {
			case *ssa.Function:
				return (x != nil) == (y != nil)
			case *closure:
				return x != nil
			}
		case *closure:
			switch y := y.(type) {
			case *ssa.Function:
				return y != nil
			case *closure:
				return x == y
			}
		case []value:
			return (x != nil) == (y.([]value) != nil)
		}
		panic(engineFault{fmt.Sprintf("eqnil(%s): illegal dynamic type: %T", t, x)})
	}
	return m.equalsV(t, x, y)
}

func sameType(x, y types.Type) bool {
	if x == nil {
		return y == nil
	}
	return y != nil && types.Identical(x, y)
}

// equalsV is Go's == on comparable values; the result is bool or a symbolic bool.
func (m *Machine) equalsV(t types.Type, x, y value) value {
	if isSym(x) || isSym(y) {
		return m.symBinop(token.EQL, x, y)
	}
	switch x := x.(type) {
	case bool, int, int8, int16, int32, int64, uint, uint8, uint16, uint32, uint64, uintptr, float32, float64, complex64, complex128:
		return x == y
	case string, sstr:
		return m.strBinop(token.EQL, x, y)
	case *value:
		return x == y.(*value)
	case *vchan:
		return x == y.(*vchan)
	case unsafe.Pointer:
		return x == y.(unsafe.Pointer)
	case structure:
		ys := y.(structure)
		var st *types.Struct
		if t != nil {
			st, _ = t.Underlying().(*types.Struct)
		}
		acc := value(true)
		for i := range x {
			var ft types.Type
			if st != nil {
				if st.Field(i).Name() == "_" {
					continue
				}
				ft = st.Field(i).Type()
			}
			acc = m.andV(acc, m.equalsV(ft, x[i], ys[i]))
			if b, ok := acc.(bool); ok && !b {
				return false
			}
		}
		return acc
	case array:
		ya := y.(array)
		var et types.Type
		if t != nil {
			if at, ok := t.Underlying().(*types.Array); ok {
				et = at.Elem()
			}
		}
		acc := value(true)
		for i := range x {
			acc = m.andV(acc, m.equalsV(et, x[i], ya[i]))
			if b, ok := acc.(bool); ok && !b {
				return false
			}
		}
		return acc
	case iface:
		yi := y.(iface)
		if !sameType(x.t, yi.t) {
			return false
		}
		if x.t == nil {
			return true
		}
		if !types.Comparable(x.t) {
			panic(targetPanic{m.runtimeErr("comparing uncomparable type " + x.t.String())})
		}
		return m.equalsV(x.t, x.v, yi.v)
	case rtype:
		return types.Identical(x.t, y.(rtype).t)
	case *native:
		return x == y.(*native)
	case *ssa.Function:
		if yf, ok := y.(*ssa.Function); ok {
			return x == yf
		}
		return false
	case *closure:
		if yc, ok := y.(*closure); ok {
			return x == yc
		}
		return false
	case *omap:
		return x == y.(*omap)
	}
	panic(engineFault{fmt.Sprintf("comparing uncomparable %T (type %v)", x, t)})
}

func (m *Machine) andV(a, b value) value {
	if ab, ok := a.(bool); ok {
		if !ab {
			return false
		}
		return b
	}
	if bb, ok := b.(bool); ok {
		if !bb {
			return false
		}
		return a
	}
	return mkScalar(m.ctx.And(a.(symv).t, b.(symv).t), types.Bool)
}

func (m *Machine) orV(a, b value) value {
	if ab, ok := a.(bool); ok {
		if ab {
			return true
		}
		return b
	}
	if bb, ok := b.(bool); ok {
		if bb {
			return true
		}
		return a
	}
	return mkScalar(m.ctx.Or(a.(symv).t, b.(symv).t), types.Bool)
}

func (m *Machine) notV(a value) value {
	if ab, ok := a.(bool); ok {
		return !ab
	}
	return mkScalar(m.ctx.Not(a.(symv).t), types.Bool)
}

// concBinop is arithmetic on concrete values of identical dynamic type.
func concBinop(op token.Token, x, y value) value {
	if k, ok := kindOf(x); ok && k != types.Bool {
		// integers: go through bits with the exact width
		w := kindWidth(k)
		a := bitsOf(x)
		var r uint64
		switch op {
		case token.SHL, token.SHR:
			cnt := bitsOf(y)
			if ky, _ := kindOf(y); kindSigned(ky) {
				cnt = uint64(asInt64(y))
			}
			if op == token.SHL {
				if cnt >= uint64(w) {
					r = 0
				} else {
					r = a << cnt
				}
			} else if kindSigned(k) {
				s := asInt64(x)
				if cnt >= 64 {
					cnt = 63
				}
				r = uint64(s >> cnt)
			} else {
				am := a
				if w < 64 {
					am &= (1 << uint(w)) - 1
				}
				if cnt >= uint64(w) {
					r = 0
				} else {
					r = am >> cnt
				}
			}
			return fromBits(k, r)
		}
		b := bitsOf(y)
		switch op {
		case token.ADD:
			r = a + b
		case token.SUB:
			r = a - b
		case token.MUL:
			r = a * b
		case token.QUO:
			if kindSigned(k) {
				sx, sy := asInt64(x), asInt64(y)
				if sy == -1 {
					r = uint64(-sx)
				} else {
					r = uint64(sx / sy)
				}
			} else {
				r = (a & wmask(w)) / (b & wmask(w))
			}
		case token.REM:
			if kindSigned(k) {
				sx, sy := asInt64(x), asInt64(y)
				if sy == -1 {
					r = 0
				} else {
					r = uint64(sx % sy)
				}
			} else {
				r = (a & wmask(w)) % (b & wmask(w))
			}
		case token.AND:
			r = a & b
		case token.OR:
			r = a | b
		case token.XOR:
			r = a ^ b
		case token.AND_NOT:
			r = a &^ b
		case token.LSS:
			if kindSigned(k) {
				return asInt64(x) < asInt64(y)
			}
			return a&wmask(w) < b&wmask(w)
		case token.LEQ:
			if kindSigned(k) {
				return asInt64(x) <= asInt64(y)
			}
			return a&wmask(w) <= b&wmask(w)
		case token.GTR:
			if kindSigned(k) {
				return asInt64(x) > asInt64(y)
			}
			return a&wmask(w) > b&wmask(w)
		case token.GEQ:
			if kindSigned(k) {
				return asInt64(x) >= asInt64(y)
			}
			return a&wmask(w) >= b&wmask(w)
		default:
			panic(engineFault{fmt.Sprintf("invalid binary op: %T %s %T", x, op, y)})
		}
		return fromBits(k, r)
	}
	switch x := x.(type) {
	case bool:
		yb := y.(bool)
		switch op {
		case token.LAND, token.AND:
			return x && yb
		case token.LOR, token.OR:
			return x || yb
		}
	case float32:
		yf := y.(float32)
		switch op {
		case token.ADD:
			return x + yf
		case token.SUB:
			return x - yf
		case token.MUL:
			return x * yf
		case token.QUO:
			return x / yf
		case token.LSS:
			return x < yf
		case token.LEQ:
			return x <= yf
		case token.GTR:
			return x > yf
		case token.GEQ:
			return x >= yf
		}
	case float64:
		yf := y.(float64)
		switch op {
		case token.ADD:
			return x + yf
		case token.SUB:
			return x - yf
		case token.MUL:
			return x * yf
		case token.QUO:
			return x / yf
		case token.LSS:
			return x < yf
		case token.LEQ:
			return x <= yf
		case token.GTR:
			return x > yf
		case token.GEQ:
			return x >= yf
		}
	case complex128:
		yc := y.(complex128)
		switch op {
		case token.ADD:
			return x + yc
		case token.SUB:
			return x - yc
		case token.MUL:
			return x * yc
		case token.QUO:
			return x / yc
		}
	}
	panic(engineFault{fmt.Sprintf("invalid binary op: %T %s %T", x, op, y)})
}

func wmask(w int) uint64 {
	if w >= 64 {
		return ^uint64(0)
	}
	return (1 << uint(w)) - 1
}

func (m *Machine) unop(fr *frame, instr *ssa.UnOp, x value) value {
	switch instr.Op {
	case token.ARROW:
		ch, _ := x.(*vchan)
		v, ok := m.chanRecv(ch)
		if !ok {
			v = zero(instr.X.Type().Underlying().(*types.Chan).Elem())
		}
		if instr.CommaOk {
			v = tuple{v, ok}
		}
		return v
	case token.SUB:
		if s, ok := x.(symv); ok {
			return mkScalar(m.ctx.Neg(s.t), s.k)
		}
		if k, ok := kindOf(x); ok && k != types.Bool {
			return fromBits(k, -bitsOf(x))
		}
		switch x := x.(type) {
		case float32:
			return -x
		case float64:
			return -x
		case complex64:
			return -x
		case complex128:
			return -x
		}
	case token.MUL:
		p := x.(*value)
		if p == nil {
			m.rtPanic("invalid memory address or nil pointer dereference")
		}
		return load(nil, p)
	case token.NOT:
		return m.notV(x)
	case token.XOR:
		if s, ok := x.(symv); ok {
			return mkScalar(m.ctx.BvNot(s.t), s.k)
		}
		if k, ok := kindOf(x); ok && k != types.Bool {
			return fromBits(k, ^bitsOf(x))
		}
	}
	panic(engineFault{fmt.Sprintf("invalid unary op %s %T", instr.Op, x)})
}

func (m *Machine) typeAssert(instr *ssa.TypeAssert, itf iface) value {
	var v value
	err := ""
	if itf.t == nil {
		err = fmt.Sprintf("interface conversion: interface is nil, not %s", instr.AssertedType)
	} else if idst, ok := instr.AssertedType.Underlying().(*types.Interface); ok {
		v = itf
		err = m.checkInterface(idst, itf)
	} else if types.Identical(itf.t, instr.AssertedType) {
		v = itf.v
	} else {
		err = fmt.Sprintf("interface conversion: interface is %s, not %s", itf.t, instr.AssertedType)
	}
	if err != "" {
		if !instr.CommaOk {
			panic(targetPanic{iface{t: m.prog.runtimeErrorT, v: err}})
		}
		return tuple{zero(instr.AssertedType), false}
	}
	if instr.CommaOk {
		return tuple{v, true}
	}
	return v
}

func (m *Machine) checkInterface(itype *types.Interface, x iface) string {
	if _, ok := x.v.(rtype); ok && x.t == m.prog.rtypeMarker {
		// reflect.Type's implementation satisfies reflect.Type and fmt.Stringer only
		if itype.NumMethods() == 0 {
			return ""
		}
		if itype.NumMethods() == 1 && itype.Method(0).Name() == "String" {
			return ""
		}
		if types.Identical(itype, m.prog.reflectTypeIface) {
			return ""
		}
		return "interface conversion: *reflect.rtype does not implement " + itype.String()
	}
	if meth, _ := types.MissingMethod(x.t, itype, true); meth != nil {
		return fmt.Sprintf("interface conversion: %v is not %v: missing method %s", x.t, itype, meth.Name())
	}
	return ""
}

// ---------------------------------------------------------------------------
// conversions

func (m *Machine) conv(t_dst, t_src types.Type, x value) value {
	ut_src := t_src.Underlying()
	ut_dst := t_dst.Underlying()

	if s, ok := x.(symv); ok {
		db, ok := ut_dst.(*types.Basic)
		if !ok {
			panic(unsupported{fmt.Sprintf("conversion of symbolic %v to %v", t_src, t_dst)})
		}
		if db.Info()&types.IsInteger != 0 {
			dk := db.Kind()
			return mkScalar(m.ctx.Resize(s.t, kindWidth(dk), kindSigned(s.k)), dk)
		}
		if db.Kind() == types.Bool {
			return x
		}
		if db.Info()&types.IsFloat != 0 {
			panic(unsupported{"symbolic integer to float conversion"})
		}
		if db.Kind() == types.String {
			// string(rune) of a symbolic value
			v := m.concretizeRange(x, "rune-to-string")
			return m.conv(t_dst, t_src, v)
		}
		panic(unsupported{fmt.Sprintf("conversion of symbolic %v to %v", t_src, t_dst)})
	}

	switch ut_src := ut_src.(type) {
	case *types.Pointer:
		if b, ok := ut_dst.(*types.Basic); ok && b.Kind() == types.UnsafePointer {
			return unsafe.Pointer(x.(*value))
		}
	case *types.Slice:
		switch ut_src.Elem().Underlying().(*types.Basic).Kind() {
		case types.Byte:
			return mkString(x.([]value))
		case types.Rune:
			xs := x.([]value)
			r := make([]rune, 0, len(xs))
			for i := range xs {
				rv, ok := xs[i].(rune)
				if !ok {
					panic(unsupported{"[]rune with symbolic element to string"})
				}
				r = append(r, rv)
			}
			return string(r)
		}
	case *types.Basic:
		if isStrVal(x) {
			switch ut_dst := ut_dst.(type) {
			case *types.Slice:
				switch ut_dst.Elem().Underlying().(*types.Basic).Kind() {
				case types.Rune:
					s, ok := x.(string)
					if !ok {
						panic(unsupported{"symbolic string to []rune"})
					}
					var res []value
					for _, r := range []rune(s) {
						res = append(res, r)
					}
					return res
				case types.Byte:
					b := strBytes(x)
					res := make([]value, len(b))
					copy(res, b)
					return res
				}
			case *types.Basic:
				if ut_dst.Kind() == types.String {
					return x
				}
			}
			break
		}
		if ut_src.Kind() == types.UnsafePointer {
			if p, ok := x.(unsafe.Pointer); ok {
				if _, isPtr := ut_dst.(*types.Pointer); isPtr {
					return (*value)(p)
				}
				return p
			}
			return zero(t_dst)
		}
		db, ok := ut_dst.(*types.Basic)
		if !ok {
			break
		}
		if ut_src.Info()&types.IsInteger != 0 && db.Kind() == types.String {
			return string(rune(asInt64(x)))
		}
		if ut_src.Info()&types.IsComplex != 0 {
			var c complex128
			switch x := x.(type) {
			case complex64:
				c = complex128(x)
			case complex128:
				c = x
			}
			if db.Kind() == types.Complex64 {
				return complex64(c)
			}
			return c
		}
		if ut_src.Info()&types.IsNumeric != 0 {
			return convNumeric(db.Kind(), x)
		}
		if ut_src.Kind() == types.Bool && db.Kind() == types.Bool {
			return x
		}
	}
	panic(engineFault{fmt.Sprintf("unsupported conversion: %s  -> %s, dynamic type %T", t_src, t_dst, x)})
}

func convNumeric(kind types.BasicKind, x value) value {
	switch xv := x.(type) {
	case float32:
		return convFloat(kind, float64(xv))
	case float64:
		return convFloat(kind, xv)
	}
	k, _ := kindOf(x)
	switch kind {
	case types.Float32:
		if kindSigned(k) {
			return float32(asInt64(x))
		}
		return float32(bitsOf(x) & wmask(kindWidth(k)))
	case types.Float64:
		if kindSigned(k) {
			return float64(asInt64(x))
		}
		return float64(bitsOf(x) & wmask(kindWidth(k)))
	}
	var b uint64
	if kindSigned(k) {
		b = uint64(asInt64(x))
	} else {
		b = bitsOf(x) & wmask(kindWidth(k))
	}
	return fromBits(kind, b)
}

func convFloat(kind types.BasicKind, f float64) value {
	switch kind {
	case types.Float32:
		return float32(f)
	case types.Float64:
		return f
	case types.Int:
		return int(f)
	case types.Int8:
		return int8(f)
	case types.Int16:
		return int16(f)
	case types.Int32:
		return int32(f)
	case types.Int64:
		return int64(f)
	case types.Uint:
		return uint(f)
	case types.Uint8:
		return uint8(f)
	case types.Uint16:
		return uint16(f)
	case types.Uint32:
		return uint32(f)
	case types.Uint64:
		return uint64(f)
	case types.Uintptr:
		return uintptr(f)
	}
	panic(engineFault{"convFloat"})
}

func (m *Machine) sliceToArrayPointer(t_dst, t_src types.Type, x value) value {
	if ptr, ok := t_dst.Underlying().(*types.Pointer); ok {
		if arr, ok := ptr.Elem().Underlying().(*types.Array); ok {
			xs := x.([]value)
			if arr.Len() > int64(len(xs)) {
				m.rtPanic("cannot convert slice with length to array or pointer to array: length too short")
			}
			if xs == nil {
				return zero(t_dst)
			}
			v := value(array(xs[:arr.Len()]))
			return &v
		}
	}
	panic(engineFault{fmt.Sprintf("unsupported conversion: %s  -> %s", t_src, t_dst)})
}

// ---------------------------------------------------------------------------
// builtins

func (m *Machine) callBuiltin(caller *frame, fn *ssa.Builtin, args []value) value {
	fromTok := false
	for i := range args {
		if _, ok := args[i].(symtok); ok {
			args[i] = m.resolveTok(args[i])
			fromTok = true
		}
	}
	if fromTok {
		switch fn.Name() {
		case "len", "cap", "append", "copy":
			if _, isIface := args[0].(iface); isIface {
				panic(pathEnd{"infeasible", "token of the wrong shape for a slice"})
			}
		}
	}
	switch fn.Name() {
	case "append":
		if len(args) == 1 {
			return args[0]
		}
		if isStrVal(args[1]) {
			arg0 := args[0].([]value)
			return append(arg0, strBytes(args[1])...)
		}
		src := args[1].([]value)
		if len(src) == 0 {
			return args[0]
		}
		cp := make([]value, len(src))
		for i := range src {
			cp[i] = copyVal(src[i])
		}
		return append(args[0].([]value), cp...)

	case "copy":
		src := args[1]
		if isStrVal(src) {
			src = strBytes(src)
		}
		dst := args[0].([]value)
		s := src.([]value)
		n := len(dst)
		if len(s) < n {
			n = len(s)
		}
		tmp := make([]value, n)
		for i := 0; i < n; i++ {
			tmp[i] = copyVal(s[i])
		}
		copy(dst, tmp)
		return n

	case "close":
		m.schedPoint("close")
		if ch := args[0].(*vchan); ch != nil {
			m.raceRelease(ch)
		}
		m.chanClose(args[0].(*vchan))
		return nil

	case "delete":
		mm := args[0].(*omap)
		if mm != nil && m.race != nil {
			m.raceWrite(mm, caller, nil)
		}
		if mm != nil {
			m.omapDelete(mm, args[1])
		}
		return nil

	case "clear":
		switch x := args[0].(type) {
		case *omap:
			if x != nil {
				for i := range x.alive {
					x.alive[i] = false
				}
				x.n = 0
			}
		case []value:
			if len(x) > 0 {
				et := fn.Type().(*types.Signature).Params().At(0).Type().Underlying().(*types.Slice).Elem()
				for i := range x {
					x[i] = zero(et)
				}
			}
		}
		return nil

	case "print", "println":
		return nil

	case "len":
		switch x := args[0].(type) {
		case string:
			return len(x)
		case sstr:
			return len(x.b)
		case array:
			return len(x)
		case *value:
			if x == nil {
				// len of nil *array is the array length; need the type
				if pt, ok := fn.Type().(*types.Signature).Params().At(0).Type().Underlying().(*types.Pointer); ok {
					return int(pt.Elem().Underlying().(*types.Array).Len())
				}
			}
			return len((*x).(array))
		case []value:
			return len(x)
		case *omap:
			return x.len()
		case *vchan:
			if x == nil {
				return 0
			}
			return len(x.buf)
		default:
			panic(engineFault{fmt.Sprintf("len: illegal operand: %T", x)})
		}

	case "cap":
		switch x := args[0].(type) {
		case array:
			return cap(x)
		case *value:
			return cap((*x).(array))
		case []value:
			return cap(x)
		case *vchan:
			if x == nil {
				return 0
			}
			return x.cap
		default:
			panic(engineFault{fmt.Sprintf("cap: illegal operand: %T", x)})
		}

	case "min":
		x := args[0]
		for _, a := range args[1:] {
			x = m.minmax(token.LSS, a, x)
		}
		return x
	case "max":
		x := args[0]
		for _, a := range args[1:] {
			x = m.minmax(token.GTR, a, x)
		}
		return x

	case "panic":
		panic(targetPanic{args[0]})

	case "recover":
		return m.doRecover(caller)

	case "ssa:wrapnilchk":
		recv := args[0]
		if recv.(*value) == nil {
			m.rtPanic(fmt.Sprintf("value method (%s).%s called using nil *%s pointer", toString(args[1]), toString(args[2]), toString(args[1])))
		}
		return recv

	case "ssa:deferstack":
		return &caller.defers
	}
	panic(unsupported{"built-in " + fn.Name()})
}

// minmax returns y if (y op x) else x.
func (m *Machine) minmax(op token.Token, y, x value) value {
	c := m.binop(op, nil, y, x)
	if b, ok := c.(bool); ok {
		if b {
			return y
		}
		return x
	}
	k, _ := kindOf(x)
	return mkScalar(m.ctx.Ite(c.(symv).t, m.termOf(y), m.termOf(x)), k)
}
