package symgo

import (
	"fmt"
	"go/types"
	"os"
	"path/filepath"
	"regexp"
	"sort"
	"strings"
	"time"

	"golang.org/x/tools/go/packages"
	"golang.org/x/tools/go/ssa"
	"golang.org/x/tools/go/ssa/ssautil"
)

type externalFn func(fr *frame, args []value) value

// Program is the immutable, shared result of loading /repo (plus overlay
// harness files) and building SSA. It is regenerated on every run.
type Program struct {
	Prog       *ssa.Program
	Pkgs       map[string]*ssa.Package // by import path
	TargetMod  string                  // module path prefix of the code under test
	LoadTime   time.Duration
	BuildTime  time.Duration
	LoadErrors []string

	externals        map[string]externalFn
	prefixExternals  []prefixExt
	runtimeErrorT    types.Type
	rtypeMarker      types.Type
	reflectTypeIface *types.Interface
	initAllow        map[string]bool
	errorsNewT       types.Type // *errors.errorString
}

type prefixExt struct {
	prefix string
	fn     func(name string) externalFn
}

func (p *Program) isTargetPkg(path string) bool {
	return path == p.TargetMod || strings.HasPrefix(path, p.TargetMod+"/")
}

// LoadOptions describes what to load.
type LoadOptions struct {
	Dir      string            // module root (/repo)
	Patterns []string          // e.g. ./...
	Overlay  map[string][]byte // absolute path -> contents
	Tags     []string
	Env      []string
}

func Load(opt LoadOptions) (*Program, error) {
	t0 := time.Now()
	cfg := &packages.Config{
		Mode:    packages.NeedName | packages.NeedFiles | packages.NeedCompiledGoFiles | packages.NeedImports | packages.NeedDeps | packages.NeedTypes | packages.NeedTypesSizes | packages.NeedSyntax | packages.NeedTypesInfo | packages.NeedModule,
		Dir:     opt.Dir,
		Overlay: opt.Overlay,
		Env:     append(os.Environ(), opt.Env...),
		Tests:   false,
	}
	if len(opt.Tags) > 0 {
		cfg.BuildFlags = []string{"-tags=" + strings.Join(opt.Tags, ",")}
	}
	pkgs, err := packages.Load(cfg, opt.Patterns...)
	if err != nil {
		return nil, err
	}
	p := &Program{Pkgs: map[string]*ssa.Package{}, externals: map[string]externalFn{}}
	packages.Visit(pkgs, nil, func(pk *packages.Package) {
		for _, e := range pk.Errors {
			p.LoadErrors = append(p.LoadErrors, e.Error())
		}
	})
	for _, pk := range pkgs {
		if pk.Module != nil && pk.Module.Main {
			p.TargetMod = pk.Module.Path
			break
		}
	}
	p.LoadTime = time.Since(t0)
	if len(p.LoadErrors) > 0 {
		return p, fmt.Errorf("load errors: %s", strings.Join(p.LoadErrors, "; "))
	}
	t1 := time.Now()
	prog, _ := ssautil.AllPackages(pkgs, ssa.InstantiateGenerics|ssa.SanityCheckFunctions&0)
	prog.Build()
	p.Prog = prog
	for _, sp := range prog.AllPackages() {
		p.Pkgs[sp.Pkg.Path()] = sp
	}
	p.BuildTime = time.Since(t1)

	if rt := p.Pkgs["runtime"]; rt != nil {
		p.runtimeErrorT = rt.Type("errorString").Object().Type()
	} else {
		return p, fmt.Errorf("runtime package not loaded")
	}
	if rp := p.Pkgs["reflect"]; rp != nil {
		p.rtypeMarker = types.NewPointer(rp.Type("rtype").Object().Type())
		p.reflectTypeIface = rp.Type("Type").Object().Type().Underlying().(*types.Interface)
	}
	if ep := p.Pkgs["errors"]; ep != nil {
		p.errorsNewT = types.NewPointer(ep.Type("errorString").Object().Type())
	}
	p.initAllow = map[string]bool{}
	for _, s := range []string{"errors", "io", "bufio", "encoding/binary", "bytes", "strings", "strconv", "unicode/utf8", "sort", "slices", "maps", "math", "math/bits", "io/fs", "internal/oserror", "internal/bytealg", "internal/byteorder", "cmp", "iter", "unicode/utf16", "internal/stringslite", "internal/itoa", "syscall", "container/list", "container/heap", "net/url", "path", "context", "golang.org/x/sync/singleflight", "github.com/reugn/go-quartz/quartz", "github.com/reugn/go-quartz/job", "github.com/reugn/go-quartz/logger", "github.com/reugn/go-quartz/internal/csm"} {
		p.initAllow[s] = true
	}
	registerExternals(p)
	return p, nil
}

// OverlayFromDir maps every file under harnessRoot/<rel>/<name> to
// repoRoot/<rel>/<name> and, for every package directory that holds harness
// files, generates the vrt runtime (from harnessRoot/_rt/vrt.go.tmpl) plus a
// registry of the VH_* harness functions. If withTests is set the native
// replay test is added as well (only meaningful for `go test -overlay`).
func OverlayFromDir(harnessRoot, repoRoot string, withTests bool) (map[string][]byte, error) {
	ov := map[string][]byte{}
	type pkgInfo struct {
		name string
		fns  []string
	}
	pkgsByDir := map[string]*pkgInfo{}
	rePkg := regexp.MustCompile(`(?m)^package\s+(\w+)`)
	reFn := regexp.MustCompile(`(?m)^func\s+(VH_\w+)\s*\(\s*\)`)
	err := filepath.Walk(harnessRoot, func(path string, info os.FileInfo, err error) error {
		if err != nil {
			return err
		}
		if info.IsDir() {
			if info.Name() == "_rt" {
				return filepath.SkipDir
			}
			return nil
		}
		if !strings.HasSuffix(path, ".go") {
			return nil
		}
		rel, _ := filepath.Rel(harnessRoot, path)
		b, err := os.ReadFile(path)
		if err != nil {
			return err
		}
		ov[filepath.Join(repoRoot, rel)] = b
		dir := filepath.Dir(rel)
		pi := pkgsByDir[dir]
		if pi == nil {
			pi = &pkgInfo{}
			pkgsByDir[dir] = pi
		}
		if mm := rePkg.FindSubmatch(b); mm != nil && !strings.HasSuffix(path, "_test.go") {
			pi.name = string(mm[1])
		}
		for _, mm := range reFn.FindAllSubmatch(b, -1) {
			pi.fns = append(pi.fns, string(mm[1]))
		}
		return nil
	})
	if err != nil {
		return nil, err
	}
	rt, err := os.ReadFile(filepath.Join(harnessRoot, "_rt", "vrt.go.tmpl"))
	if err != nil {
		return nil, err
	}
	tt, err := os.ReadFile(filepath.Join(harnessRoot, "_rt", "replay_test.go.tmpl"))
	if err != nil {
		return nil, err
	}
	for dir, pi := range pkgsByDir {
		if pi.name == "" {
			continue
		}
		var sb strings.Builder
		sb.WriteString(strings.ReplaceAll(string(rt), "PKGNAME", pi.name))
		sb.WriteString("\nvar vrtHarnesses = map[string]func(){\n")
		sort.Strings(pi.fns)
		for _, f := range pi.fns {
			fmt.Fprintf(&sb, "\t%q: %s,\n", f, f)
		}
		sb.WriteString("}\n")
		ov[filepath.Join(repoRoot, dir, "zz_verif_rt.go")] = []byte(sb.String())
		if withTests {
			ov[filepath.Join(repoRoot, dir, "zz_verif_replay_test.go")] = []byte(strings.ReplaceAll(string(tt), "PKGNAME", pi.name))
		}
	}
	return ov, nil
}

// FindFunc finds a package-level function by import path and name.
func (p *Program) FindFunc(pkgPath, name string) *ssa.Function {
	sp := p.Pkgs[pkgPath]
	if sp == nil {
		return nil
	}
	return sp.Func(name)
}

// HarnessFuncs lists package-level functions whose name starts with prefix.
func (p *Program) HarnessFuncs(prefix string) []*ssa.Function {
	var out []*ssa.Function
	for path, sp := range p.Pkgs {
		if !p.isTargetPkg(path) {
			continue
		}
		for name, mem := range sp.Members {
			if f, ok := mem.(*ssa.Function); ok && strings.HasPrefix(name, prefix) {
				out = append(out, f)
			}
		}
	}
	sort.Slice(out, func(i, j int) bool { return out[i].String() < out[j].String() })
	return out
}

func (p *Program) lookupExternal(fn *ssa.Function) externalFn {
	name := fn.String()
	if e, ok := p.externals[name]; ok {
		return e
	}
	if o := fn.Origin(); o != nil && o != fn {
		if e, ok := p.externals[o.String()]; ok {
			return e
		}
		name = o.String()
	}
	for _, pe := range p.prefixExternals {
		if strings.HasPrefix(name, pe.prefix) {
			if e := pe.fn(name); e != nil {
				return e
			}
		}
	}
	// package initialisers outside the allow-list are skipped
	if fn.Name() == "init" && fn.Pkg != nil && fn.Parent() == nil && fn.Signature.Recv() == nil {
		path := fn.Pkg.Pkg.Path()
		if !p.isTargetPkg(path) && !p.initAllow[path] {
			return func(fr *frame, args []value) value { return nil }
		}
	}
	return nil
}

// FuncInstrCount returns the number of SSA instructions of fn (0 if external).
func FuncInstrCount(fn *ssa.Function) int {
	n := 0
	for _, b := range fn.Blocks {
		n += len(b.Instrs)
	}
	return n
}
