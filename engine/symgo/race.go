package symgo

import (
	"fmt"
	"strings"

	"golang.org/x/tools/go/ssa"
)

// Happens-before data-race detection for Engine A (Params["race"] = 1).
//
// Every goroutine carries a vector clock; sync.Mutex/RWMutex, sync/atomic
// cells, channels, sync.WaitGroup, sync.Map, sync.Once, sync.Pool, `go` and
// timer callbacks create the happens-before edges of the Go memory model
// (edges are over-approximated where the model is asymmetric — e.g. every
// channel operation both acquires and releases — so that a missing edge can
// only hide a race, never invent one). Every load/store through a pointer and
// every map read/write executed by the interpreter is checked against the
// last write / the reads since then of that cell: two accesses by different
// goroutines, at least one a write, unordered by happens-before, are a data
// race (reported as a violation of "no-data-race"). Together with the
// preemptive scheduler this explores the races of every schedule within the
// preemption bound; a race found is feasible in the explored schedule itself.

type vclock map[int]int

func (a vclock) join(b vclock) {
	for k, v := range b {
		if v > a[k] {
			a[k] = v
		}
	}
}

func (a vclock) clone() vclock {
	c := make(vclock, len(a))
	for k, v := range a {
		c[k] = v
	}
	return c
}

type raceAccess struct {
	g     int
	clk   int
	where string
}

type shadowCell struct {
	w     raceAccess
	hasW  bool
	reads []raceAccess
}

type raceState struct {
	gvc    map[*goroutine]vclock
	objs   map[any]vclock
	shadow map[any]*shadowCell
	checks int
}

func newRaceState() *raceState {
	return &raceState{gvc: map[*goroutine]vclock{}, objs: map[any]vclock{}, shadow: map[any]*shadowCell{}}
}

func (m *Machine) raceOn() bool {
	return m.race != nil && !m.racePaused && m.seg == nil && m.tsSetup == nil && m.cur != nil
}

func (m *Machine) raceVC(g *goroutine) vclock {
	vc, ok := m.race.gvc[g]
	if !ok {
		vc = vclock{g.id: 1}
		m.race.gvc[g] = vc
	}
	return vc
}

func (m *Machine) raceAcquire(obj any) {
	if !m.raceOn() || obj == nil {
		return
	}
	if o, ok := m.race.objs[obj]; ok {
		m.raceVC(m.cur).join(o)
	}
}

func (m *Machine) raceRelease(obj any) {
	if !m.raceOn() || obj == nil {
		return
	}
	vc := m.raceVC(m.cur)
	o, ok := m.race.objs[obj]
	if !ok {
		o = vclock{}
		m.race.objs[obj] = o
	}
	o.join(vc)
	vc[m.cur.id]++
}

func (m *Machine) raceAcqRel(obj any) {
	m.raceAcquire(obj)
	m.raceRelease(obj)
}

// raceFork: the child starts with the parent's knowledge (plus extra, e.g. a
// timer's creation instant).
func (m *Machine) raceFork(child *goroutine, extra vclock) {
	if m.race == nil || m.cur == nil {
		return
	}
	pvc := m.raceVC(m.cur)
	cvc := pvc.clone()
	if extra != nil {
		cvc.join(extra)
	}
	cvc[child.id] = 1
	m.race.gvc[child] = cvc
	pvc[m.cur.id]++
}

func raceWhere(fr *frame, instr ssa.Instruction) string {
	if fr == nil || fr.fn == nil {
		return "?"
	}
	s := fr.fn.String()
	if instr != nil && fr.fn.Prog != nil && instr.Pos().IsValid() {
		p := fr.fn.Prog.Fset.Position(instr.Pos())
		f := p.Filename
		if i := strings.LastIndex(f, "/"); i >= 0 {
			f = f[i+1:]
		}
		s += fmt.Sprintf(" (%s:%d)", f, p.Line)
	}
	return s
}

func (m *Machine) raceReport(kind string, prev raceAccess, prevKind string, where string) {
	msg := fmt.Sprintf("%s by goroutine %d at %s is not ordered (happens-before) with the earlier %s by goroutine %d at %s", kind, m.cur.id, where, prevKind, prev.g, prev.where)
	m.violate("no-data-race", msg, nil)
}

func (m *Machine) raceRead(key any, fr *frame, instr ssa.Instruction) {
	if !m.raceOn() || key == nil {
		return
	}
	m.race.checks++
	vc := m.raceVC(m.cur)
	sc := m.race.shadow[key]
	if sc == nil {
		sc = &shadowCell{}
		m.race.shadow[key] = sc
	}
	g := m.cur.id
	if sc.hasW && sc.w.g != g && sc.w.clk > vc[sc.w.g] {
		m.raceReport("read", sc.w, "write", raceWhere(fr, instr))
	}
	for i := range sc.reads {
		if sc.reads[i].g == g {
			sc.reads[i].clk = vc[g]
			return
		}
	}
	sc.reads = append(sc.reads, raceAccess{g: g, clk: vc[g], where: raceWhere(fr, instr)})
}

func (m *Machine) raceWrite(key any, fr *frame, instr ssa.Instruction) {
	if !m.raceOn() || key == nil {
		return
	}
	m.race.checks++
	vc := m.raceVC(m.cur)
	sc := m.race.shadow[key]
	if sc == nil {
		sc = &shadowCell{}
		m.race.shadow[key] = sc
	}
	g := m.cur.id
	if sc.hasW && sc.w.g != g && sc.w.clk > vc[sc.w.g] {
		m.raceReport("write", sc.w, "write", raceWhere(fr, instr))
	}
	for _, r := range sc.reads {
		if r.g != g && r.clk > vc[r.g] {
			m.raceReport("write", r, "read", raceWhere(fr, instr))
		}
	}
	sc.w, sc.hasW = raceAccess{g: g, clk: vc[g], where: raceWhere(fr, instr)}, true
	sc.reads = sc.reads[:0]
}

// raceSyncBefore / raceSyncAfter are called around every sync / sync/atomic
// external with the receiver (first argument).
func (m *Machine) raceSyncBefore(name string, args []value) {
	if !m.raceOn() || len(args) == 0 {
		return
	}
	obj := raceObjKey(args[0])
	switch {
	case strings.HasSuffix(name, ").Unlock"), strings.HasSuffix(name, ").RUnlock"):
		m.raceRelease(obj)
	case strings.Contains(name, "sync/atomic"):
		m.raceAcqRel(obj)
	case strings.Contains(name, "sync.WaitGroup).Done"), strings.Contains(name, "sync.WaitGroup).Add"):
		m.raceRelease(obj)
	case strings.Contains(name, "sync.WaitGroup).Go"):
		m.raceRelease(obj)
	case strings.Contains(name, "sync.Map)."), strings.Contains(name, "sync.Pool)."), strings.Contains(name, "sync.Once)."):
		m.raceAcqRel(obj)
	}
}

func (m *Machine) raceSyncAfter(name string, args []value, result value) {
	if !m.raceOn() || len(args) == 0 {
		return
	}
	obj := raceObjKey(args[0])
	switch {
	case strings.HasSuffix(name, ").Lock"), strings.HasSuffix(name, ").RLock"):
		m.raceAcquire(obj)
	case strings.HasSuffix(name, ").TryLock"), strings.HasSuffix(name, ").TryRLock"):
		if b, ok := result.(bool); ok && b {
			m.raceAcquire(obj)
		}
	case strings.Contains(name, "sync.WaitGroup).Wait"):
		m.raceAcquire(obj)
	case strings.Contains(name, "sync.Map)."), strings.Contains(name, "sync.Pool)."), strings.Contains(name, "sync.Once)."):
		m.raceAcqRel(obj)
	}
}

func raceObjKey(v value) any {
	switch p := v.(type) {
	case *value:
		if p == nil {
			return nil
		}
		return p
	case *vchan:
		if p == nil {
			return nil
		}
		return p
	}
	return nil
}
