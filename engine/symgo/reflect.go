package symgo

// Emulation of package reflect at API level: reflect.Value is an engine value
// (rvalue), reflect.Type is an interface value whose dynamic type is the
// marker *reflect.rtype and whose payload is rtype{t}.

import (
	"fmt"
	"go/types"
	"reflect"
	"strings"

	"golang.org/x/tools/go/ssa"
)

type rtype struct {
	t types.Type
}

type rvalue struct {
	t    types.Type // nil = invalid Value
	v    value
	addr *value // non-nil if addressable
	ro   bool   // obtained through an unexported field
}

func (r rvalue) get() value {
	if r.addr != nil {
		return *r.addr
	}
	return r.v
}

type rtypeMethod struct {
	name string
	recv rtype
}

func (m *Machine) mkRType(t types.Type) value {
	if t == nil {
		return iface{}
	}
	return iface{t: m.prog.rtypeMarker, v: rtype{t}}
}

func rtypeOf(v value) types.Type {
	it := v.(iface)
	if it.t == nil {
		panic(targetPanic{iface{}}) // refined by callers
	}
	return it.v.(rtype).t
}

func reflectKind(t types.Type) reflect.Kind {
	switch t := t.Underlying().(type) {
	case *types.Basic:
		switch t.Kind() {
		case types.Bool:
			return reflect.Bool
		case types.Int:
			return reflect.Int
		case types.Int8:
			return reflect.Int8
		case types.Int16:
			return reflect.Int16
		case types.Int32:
			return reflect.Int32
		case types.Int64:
			return reflect.Int64
		case types.Uint:
			return reflect.Uint
		case types.Uint8:
			return reflect.Uint8
		case types.Uint16:
			return reflect.Uint16
		case types.Uint32:
			return reflect.Uint32
		case types.Uint64:
			return reflect.Uint64
		case types.Uintptr:
			return reflect.Uintptr
		case types.Float32:
			return reflect.Float32
		case types.Float64:
			return reflect.Float64
		case types.Complex64:
			return reflect.Complex64
		case types.Complex128:
			return reflect.Complex128
		case types.String:
			return reflect.String
		case types.UnsafePointer:
			return reflect.UnsafePointer
		}
	case *types.Array:
		return reflect.Array
	case *types.Chan:
		return reflect.Chan
	case *types.Signature:
		return reflect.Func
	case *types.Interface:
		return reflect.Interface
	case *types.Map:
		return reflect.Map
	case *types.Pointer:
		return reflect.Pointer
	case *types.Slice:
		return reflect.Slice
	case *types.Struct:
		return reflect.Struct
	}
	return reflect.Invalid
}

func (m *Machine) reflectPanic(msg string) {
	panic(targetPanic{iface{t: types.Typ[types.String], v: msg}})
}

func typeName(t types.Type) string {
	switch t := types.Unalias(t).(type) {
	case *types.Named:
		return t.Obj().Name()
	case *types.Basic:
		return t.Name()
	}
	return ""
}

func typePkgPath(t types.Type) string {
	if n, ok := types.Unalias(t).(*types.Named); ok && n.Obj().Pkg() != nil {
		return n.Obj().Pkg().Path()
	}
	return ""
}

// typeString mimics reflect.Type.String(): package-name qualified.
func typeString(t types.Type) string {
	return types.TypeString(t, func(p *types.Package) string { return p.Name() })
}

func (m *Machine) structFieldValue(st *types.Struct, i int) value {
	// reflect.StructField{Name, PkgPath string; Type Type; Tag StructTag; Offset uintptr; Index []int; Anonymous bool}
	f := st.Field(i)
	pkgPath := ""
	if !f.Exported() && f.Pkg() != nil {
		pkgPath = f.Pkg().Path()
	}
	return structure{f.Name(), pkgPath, m.mkRType(f.Type()), st.Tag(i), uintptr(0), []value{i}, f.Anonymous()}
}

func (m *Machine) callRtypeMethod(f *rtypeMethod, args []value) value {
	t := f.recv.t
	switch f.name {
	case "Kind":
		return uint(reflectKind(t))
	case "String":
		return typeString(t)
	case "Name":
		return typeName(t)
	case "PkgPath":
		return typePkgPath(t)
	case "Elem":
		switch u := t.Underlying().(type) {
		case *types.Pointer:
			return m.mkRType(u.Elem())
		case *types.Slice:
			return m.mkRType(u.Elem())
		case *types.Array:
			return m.mkRType(u.Elem())
		case *types.Map:
			return m.mkRType(u.Elem())
		case *types.Chan:
			return m.mkRType(u.Elem())
		}
		m.reflectPanic("reflect: Elem of invalid type " + typeString(t))
	case "Key":
		if u, ok := t.Underlying().(*types.Map); ok {
			return m.mkRType(u.Key())
		}
		m.reflectPanic("reflect: Key of non-map type " + typeString(t))
	case "Len":
		if u, ok := t.Underlying().(*types.Array); ok {
			return int(u.Len())
		}
		m.reflectPanic("reflect: Len of non-array type " + typeString(t))
	case "NumField":
		if u, ok := t.Underlying().(*types.Struct); ok {
			return u.NumFields()
		}
		m.reflectPanic("reflect: NumField of non-struct type " + typeString(t))
	case "Field":
		if u, ok := t.Underlying().(*types.Struct); ok {
			i := int(asInt64(args[0]))
			if i < 0 || i >= u.NumFields() {
				m.reflectPanic("reflect: Field index out of bounds")
			}
			return m.structFieldValue(u, i)
		}
		m.reflectPanic("reflect: Field of non-struct type " + typeString(t))
	case "Comparable":
		return types.Comparable(t)
	case "Implements":
		u := rtypeOf(args[0])
		it, ok := u.Underlying().(*types.Interface)
		if !ok {
			m.reflectPanic("reflect: non-interface type passed to Type.Implements")
		}
		return types.Implements(t, it)
	case "AssignableTo":
		return types.AssignableTo(t, rtypeOf(args[0]))
	case "ConvertibleTo":
		return types.ConvertibleTo(t, rtypeOf(args[0]))
	case "NumMethod":
		return m.prog.Prog.MethodSets.MethodSet(t).Len()
	case "Size":
		return uintptr(m.prog.sizes().Sizeof(t))
	case "Bits":
		return int(m.prog.sizes().Sizeof(t)) * 8
	}
	panic(unsupported{"reflect.Type." + f.name})
}

func (p *Program) sizes() types.Sizes { return types.SizesFor("gc", "amd64") }

func (m *Machine) rv(v value) rvalue {
	r, ok := v.(rvalue)
	if !ok {
		panic(engineFault{fmt.Sprintf("expected reflect.Value, have %T", v)})
	}
	return r
}

func (m *Machine) rvValid(v value, meth string) rvalue {
	r := m.rv(v)
	if r.t == nil {
		m.reflectPanic("reflect: call of reflect.Value." + meth + " on zero Value")
	}
	return r
}

func (m *Machine) rvInterface(r rvalue) value {
	if _, ok := r.t.Underlying().(*types.Interface); ok {
		return r.get()
	}
	return iface{t: r.t, v: copyVal(r.get())}
}

func registerReflect(p *Program) {
	ext := p.externals
	ext["reflect.TypeOf"] = func(fr *frame, a []value) value { return fr.m.mkRType(a[0].(iface).t) }
	ext["reflect.ValueOf"] = func(fr *frame, a []value) value {
		it := a[0].(iface)
		if it.t == nil {
			return rvalue{}
		}
		return rvalue{t: it.t, v: it.v}
	}
	ext["reflect.New"] = func(fr *frame, a []value) value {
		t := rtypeOf(a[0])
		cell := zero(t)
		return rvalue{t: types.NewPointer(t), v: &cell}
	}
	ext["reflect.Zero"] = func(fr *frame, a []value) value {
		t := rtypeOf(a[0])
		return rvalue{t: t, v: zero(t)}
	}
	ext["reflect.Indirect"] = func(fr *frame, a []value) value {
		r := fr.m.rv(a[0])
		if r.t == nil {
			return r
		}
		if pt, ok := r.t.Underlying().(*types.Pointer); ok {
			p := r.get().(*value)
			if p == nil {
				return rvalue{}
			}
			return rvalue{t: pt.Elem(), addr: p}
		}
		return r
	}
	ext["reflect.PtrTo"] = func(fr *frame, a []value) value { return fr.m.mkRType(types.NewPointer(rtypeOf(a[0]))) }
	ext["reflect.PointerTo"] = ext["reflect.PtrTo"]
	ext["reflect.SliceOf"] = func(fr *frame, a []value) value { return fr.m.mkRType(types.NewSlice(rtypeOf(a[0]))) }
	ext["reflect.MakeSlice"] = func(fr *frame, a []value) value {
		m := fr.m
		t := rtypeOf(a[0])
		st, ok := t.Underlying().(*types.Slice)
		if !ok {
			m.reflectPanic("reflect.MakeSlice of non-slice type")
		}
		// negative checks as reflect does
		n := m.allocSizeReflect(a[1], "reflect.MakeSlice len")
		c := m.allocSizeReflect(a[2], "reflect.MakeSlice cap")
		if n > c {
			m.reflectPanic("reflect.MakeSlice: len > cap")
		}
		sl := make([]value, c)
		for i := range sl {
			sl[i] = zero(st.Elem())
		}
		return rvalue{t: t, v: sl[:n]}
	}
	ext["reflect.MakeMap"] = func(fr *frame, a []value) value {
		t := rtypeOf(a[0])
		return rvalue{t: t, v: newOmap(t.Underlying().(*types.Map).Key())}
	}
	ext["reflect.MakeMapWithSize"] = func(fr *frame, a []value) value {
		t := rtypeOf(a[0])
		fr.m.allocSize(a[1], "reflect.MakeMapWithSize")
		return rvalue{t: t, v: newOmap(t.Underlying().(*types.Map).Key())}
	}
	ext["reflect.Append"] = func(fr *frame, a []value) value {
		r := fr.m.rvValid(a[0], "Append")
		sl := r.get().([]value)
		for _, x := range a[1].([]value) {
			sl = append(sl, copyVal(fr.m.rv(x).get()))
		}
		return rvalue{t: r.t, v: sl}
	}
	ext["reflect.Copy"] = func(fr *frame, a []value) value {
		d := fr.m.rvValid(a[0], "Copy")
		s := fr.m.rvValid(a[1], "Copy")
		var ds, ss []value
		switch x := d.get().(type) {
		case []value:
			ds = x
		case array:
			ds = x
		}
		switch x := s.get().(type) {
		case []value:
			ss = x
		case array:
			ss = x
		case string, sstr:
			ss = strBytes(x)
		}
		n := len(ds)
		if len(ss) < n {
			n = len(ss)
		}
		for i := 0; i < n; i++ {
			ds[i] = copyVal(ss[i])
		}
		return n
	}
	ext["reflect.DeepEqual"] = func(fr *frame, a []value) value {
		return fr.m.deepEqual(a[0], a[1], 0)
	}

	V := func(name string, f func(m *Machine, r rvalue, a []value) value) {
		ext["(reflect.Value)."+name] = func(fr *frame, a []value) value {
			return f(fr.m, fr.m.rv(a[0]), a[1:])
		}
	}
	V("IsValid", func(m *Machine, r rvalue, a []value) value { return r.t != nil })
	V("Kind", func(m *Machine, r rvalue, a []value) value {
		if r.t == nil {
			return uint(reflect.Invalid)
		}
		return uint(reflectKind(r.t))
	})
	V("Type", func(m *Machine, r rvalue, a []value) value {
		if r.t == nil {
			m.reflectPanic("reflect: call of reflect.Value.Type on zero Value")
		}
		return m.mkRType(r.t)
	})
	V("IsNil", func(m *Machine, r rvalue, a []value) value {
		if r.t == nil {
			m.reflectPanic("reflect: call of reflect.Value.IsNil on zero Value")
		}
		switch x := r.get().(type) {
		case *value:
			return x == nil
		case []value:
			return x == nil
		case *omap:
			return x == nil
		case *vchan:
			return x == nil
		case iface:
			return x.t == nil
		case *ssa.Function:
			return x == nil
		case *closure:
			return x == nil
		}
		m.reflectPanic("reflect: call of reflect.Value.IsNil on " + reflectKind(r.t).String() + " Value")
		return nil
	})
	V("IsZero", func(m *Machine, r rvalue, a []value) value {
		if r.t == nil {
			m.reflectPanic("reflect: call of reflect.Value.IsZero on zero Value")
		}
		return m.isZeroValue(r.t, r.get())
	})
	V("Elem", func(m *Machine, r rvalue, a []value) value {
		if r.t == nil {
			m.reflectPanic("reflect: call of reflect.Value.Elem on zero Value")
		}
		switch u := r.t.Underlying().(type) {
		case *types.Pointer:
			p := r.get().(*value)
			if p == nil {
				return rvalue{}
			}
			return rvalue{t: u.Elem(), addr: p, ro: r.ro}
		case *types.Interface:
			it := r.get().(iface)
			if it.t == nil {
				return rvalue{}
			}
			return rvalue{t: it.t, v: it.v, ro: r.ro}
		}
		m.reflectPanic("reflect: call of reflect.Value.Elem on " + reflectKind(r.t).String() + " Value")
		return nil
	})
	V("Len", func(m *Machine, r rvalue, a []value) value {
		if r.t == nil {
			m.reflectPanic("reflect: call of reflect.Value.Len on zero Value")
		}
		switch x := r.get().(type) {
		case []value:
			return len(x)
		case array:
			return len(x)
		case string, sstr:
			return strLen(x)
		case *omap:
			return x.len()
		case *vchan:
			if x == nil {
				return 0
			}
			return len(x.buf)
		case *value: // pointer to array
			if pt, ok := r.t.Underlying().(*types.Pointer); ok {
				if at, ok := pt.Elem().Underlying().(*types.Array); ok {
					return int(at.Len())
				}
			}
		}
		m.reflectPanic("reflect: call of reflect.Value.Len on " + reflectKind(r.t).String() + " Value")
		return nil
	})
	V("Cap", func(m *Machine, r rvalue, a []value) value {
		switch x := r.get().(type) {
		case []value:
			return cap(x)
		case array:
			return len(x)
		}
		m.reflectPanic("reflect: call of reflect.Value.Cap on non-slice Value")
		return nil
	})
	V("Index", func(m *Machine, r rvalue, a []value) value {
		if r.t == nil {
			m.reflectPanic("reflect: call of reflect.Value.Index on zero Value")
		}
		switch u := r.t.Underlying().(type) {
		case *types.Slice:
			s := r.get().([]value)
			i := asInt64(m.concretize(a[0], "reflect-index"))
			if i < 0 || i >= int64(len(s)) {
				m.reflectPanic("reflect: slice index out of range")
			}
			return rvalue{t: u.Elem(), addr: &s[i], ro: r.ro}
		case *types.Array:
			i := asInt64(m.concretize(a[0], "reflect-index"))
			if i < 0 || i >= u.Len() {
				m.reflectPanic("reflect: array index out of range")
			}
			if r.addr != nil {
				arr := (*r.addr).(array)
				return rvalue{t: u.Elem(), addr: &arr[i], ro: r.ro}
			}
			return rvalue{t: u.Elem(), v: copyVal(r.v.(array)[i]), ro: r.ro}
		case *types.Basic:
			if u.Kind() == types.String {
				b := strBytes(r.get())
				i := asInt64(m.concretize(a[0], "reflect-index"))
				if i < 0 || i >= int64(len(b)) {
					m.reflectPanic("reflect: string index out of range")
				}
				return rvalue{t: types.Typ[types.Uint8], v: b[i]}
			}
		}
		m.reflectPanic("reflect: call of reflect.Value.Index on " + reflectKind(r.t).String() + " Value")
		return nil
	})
	V("NumField", func(m *Machine, r rvalue, a []value) value {
		if r.t != nil {
			if st, ok := r.t.Underlying().(*types.Struct); ok {
				return st.NumFields()
			}
		}
		m.reflectPanic("reflect: call of reflect.Value.NumField on non-struct Value")
		return nil
	})
	V("Field", func(m *Machine, r rvalue, a []value) value {
		if r.t == nil {
			m.reflectPanic("reflect: call of reflect.Value.Field on zero Value")
		}
		st, ok := r.t.Underlying().(*types.Struct)
		if !ok {
			m.reflectPanic("reflect: call of reflect.Value.Field on " + reflectKind(r.t).String() + " Value")
		}
		i := int(asInt64(a[0]))
		if i < 0 || i >= st.NumFields() {
			m.reflectPanic("reflect: Field index out of range")
		}
		ro := r.ro || !st.Field(i).Exported()
		if r.addr != nil {
			s := (*r.addr).(structure)
			return rvalue{t: st.Field(i).Type(), addr: &s[i], ro: ro}
		}
		return rvalue{t: st.Field(i).Type(), v: copyVal(r.v.(structure)[i]), ro: ro}
	})
	V("CanSet", func(m *Machine, r rvalue, a []value) value { return r.addr != nil && !r.ro })
	V("CanAddr", func(m *Machine, r rvalue, a []value) value { return r.addr != nil })
	V("CanInterface", func(m *Machine, r rvalue, a []value) value {
		if r.t == nil {
			m.reflectPanic("reflect.Value.CanInterface: call on zero Value")
		}
		return !r.ro
	})
	V("Interface", func(m *Machine, r rvalue, a []value) value {
		if r.t == nil {
			m.reflectPanic("reflect: call of reflect.Value.Interface on zero Value")
		}
		if r.ro {
			m.reflectPanic("reflect.Value.Interface: cannot return value obtained from unexported field or method")
		}
		return m.rvInterface(r)
	})
	V("Addr", func(m *Machine, r rvalue, a []value) value {
		if r.addr == nil {
			m.reflectPanic("reflect.Value.Addr of unaddressable value")
		}
		return rvalue{t: types.NewPointer(r.t), v: r.addr, ro: r.ro}
	})
	V("Set", func(m *Machine, r rvalue, a []value) value {
		x := m.rv(a[0])
		if r.addr == nil || r.ro {
			m.reflectPanic("reflect: reflect.Value.Set using unaddressable value")
		}
		if x.t == nil {
			m.reflectPanic("reflect: call of reflect.Value.Set on zero Value")
		}
		if x.ro {
			m.reflectPanic("reflect: reflect.Value.Set using value obtained using unexported field")
		}
		nv := copyVal(x.get())
		if _, isIface := r.t.Underlying().(*types.Interface); isIface {
			if _, srcIface := x.t.Underlying().(*types.Interface); !srcIface {
				if !types.AssignableTo(x.t, r.t) {
					m.reflectPanic("reflect.Set: value of type " + typeString(x.t) + " is not assignable to type " + typeString(r.t))
				}
				nv = iface{t: x.t, v: nv}
			}
		} else if !types.AssignableTo(x.t, r.t) {
			m.reflectPanic("reflect.Set: value of type " + typeString(x.t) + " is not assignable to type " + typeString(r.t))
		}
		store(nil, r.addr, nv)
		return nil
	})
	setScalar := func(name string, ok func(k reflect.Kind) bool, cv func(m *Machine, t types.Type, x value) value) {
		V(name, func(m *Machine, r rvalue, a []value) value {
			if r.addr == nil || r.ro {
				m.reflectPanic("reflect: reflect.Value." + name + " using unaddressable value")
			}
			if !ok(reflectKind(r.t)) {
				m.reflectPanic("reflect: call of reflect.Value." + name + " on " + reflectKind(r.t).String() + " Value")
			}
			*r.addr = cv(m, r.t, a[0])
			return nil
		})
	}
	isInt := func(k reflect.Kind) bool { return k >= reflect.Int && k <= reflect.Int64 }
	isUint := func(k reflect.Kind) bool { return k >= reflect.Uint && k <= reflect.Uintptr }
	setScalar("SetInt", isInt, func(m *Machine, t types.Type, x value) value { return m.conv(t, types.Typ[types.Int64], x) })
	setScalar("SetUint", isUint, func(m *Machine, t types.Type, x value) value { return m.conv(t, types.Typ[types.Uint64], x) })
	setScalar("SetBool", func(k reflect.Kind) bool { return k == reflect.Bool }, func(m *Machine, t types.Type, x value) value { return x })
	setScalar("SetString", func(k reflect.Kind) bool { return k == reflect.String }, func(m *Machine, t types.Type, x value) value { return x })
	setScalar("SetFloat", func(k reflect.Kind) bool { return k == reflect.Float32 || k == reflect.Float64 }, func(m *Machine, t types.Type, x value) value {
		return m.conv(t, types.Typ[types.Float64], x)
	})
	setScalar("SetBytes", func(k reflect.Kind) bool { return k == reflect.Slice }, func(m *Machine, t types.Type, x value) value { return x })
	V("Int", func(m *Machine, r rvalue, a []value) value {
		if r.t == nil || !isInt(reflectKind(r.t)) {
			m.reflectPanic("reflect: call of reflect.Value.Int on non-int Value")
		}
		return m.conv(types.Typ[types.Int64], r.t, r.get())
	})
	V("Uint", func(m *Machine, r rvalue, a []value) value {
		if r.t == nil || !isUint(reflectKind(r.t)) {
			m.reflectPanic("reflect: call of reflect.Value.Uint on non-uint Value")
		}
		return m.conv(types.Typ[types.Uint64], r.t, r.get())
	})
	V("Bool", func(m *Machine, r rvalue, a []value) value {
		if r.t == nil || reflectKind(r.t) != reflect.Bool {
			m.reflectPanic("reflect: call of reflect.Value.Bool on non-bool Value")
		}
		return r.get()
	})
	V("Float", func(m *Machine, r rvalue, a []value) value {
		switch x := r.get().(type) {
		case float32:
			return float64(x)
		case float64:
			return x
		}
		m.reflectPanic("reflect: call of reflect.Value.Float on non-float Value")
		return nil
	})
	V("String", func(m *Machine, r rvalue, a []value) value {
		if r.t == nil {
			return "<invalid Value>"
		}
		if reflectKind(r.t) == reflect.String {
			return r.get()
		}
		return "<" + typeString(r.t) + " Value>"
	})
	V("Bytes", func(m *Machine, r rvalue, a []value) value {
		if s, ok := r.get().([]value); ok {
			return s
		}
		m.reflectPanic("reflect: call of reflect.Value.Bytes on non-byte-slice Value")
		return nil
	})
	V("Pointer", func(m *Machine, r rvalue, a []value) value {
		return m.pointerID(r.get())
	})
	V("UnsafePointer", func(m *Machine, r rvalue, a []value) value {
		panic(unsupported{"reflect.Value.UnsafePointer"})
	})
	V("MapKeys", func(m *Machine, r rvalue, a []value) value {
		o, ok := r.get().(*omap)
		if !ok {
			m.reflectPanic("reflect: call of reflect.Value.MapKeys on non-map Value")
		}
		kt := r.t.Underlying().(*types.Map).Key()
		var out []value
		if o != nil {
			for i := range o.keys {
				if o.alive[i] {
					out = append(out, rvalue{t: kt, v: o.keys[i]})
				}
			}
		}
		return out
	})
	V("MapIndex", func(m *Machine, r rvalue, a []value) value {
		o, ok := r.get().(*omap)
		if !ok {
			m.reflectPanic("reflect: call of reflect.Value.MapIndex on non-map Value")
		}
		v, found := m.omapGet(o, m.rv(a[0]).get())
		if !found {
			return rvalue{}
		}
		return rvalue{t: r.t.Underlying().(*types.Map).Elem(), v: copyVal(v)}
	})
	V("SetMapIndex", func(m *Machine, r rvalue, a []value) value {
		o, ok := r.get().(*omap)
		if !ok {
			m.reflectPanic("reflect: call of reflect.Value.SetMapIndex on non-map Value")
		}
		k := m.rv(a[0]).get()
		e := m.rv(a[1])
		if e.t == nil {
			m.omapDelete(o, k)
			return nil
		}
		ev := copyVal(e.get())
		if _, isIface := r.t.Underlying().(*types.Map).Elem().Underlying().(*types.Interface); isIface {
			if _, srcIface := e.t.Underlying().(*types.Interface); !srcIface {
				ev = iface{t: e.t, v: ev}
			}
		}
		m.omapSet(o, k, ev)
		return nil
	})
	V("SetLen", func(m *Machine, r rvalue, a []value) value {
		s := (*r.addr).([]value)
		n := asInt64(m.concretize(a[0], "reflect-setlen"))
		if n < 0 || n > int64(cap(s)) {
			m.reflectPanic("reflect: slice length out of range in SetLen")
		}
		*r.addr = s[:n]
		return nil
	})
	V("Slice", func(m *Machine, r rvalue, a []value) value {
		return rvalue{t: sliceTypeOf(r.t), v: m.slice(sliceable(r), a[0], a[1], nil)}
	})
	V("Convert", func(m *Machine, r rvalue, a []value) value {
		t := rtypeOf(a[0])
		if types.Identical(r.t, t) {
			return rvalue{t: t, v: r.get()}
		}
		if _, ok := t.Underlying().(*types.Interface); ok {
			return rvalue{t: t, v: m.rvInterface(r)}
		}
		return rvalue{t: t, v: m.conv(t, r.t, r.get())}
	})
	V("NumMethod", func(m *Machine, r rvalue, a []value) value {
		return m.prog.Prog.MethodSets.MethodSet(r.t).Len()
	})
}

func sliceTypeOf(t types.Type) types.Type {
	switch u := t.Underlying().(type) {
	case *types.Array:
		return types.NewSlice(u.Elem())
	case *types.Pointer:
		return types.NewSlice(u.Elem().Underlying().(*types.Array).Elem())
	}
	return t
}

func sliceable(r rvalue) value {
	if r.addr != nil {
		if _, ok := (*r.addr).(array); ok {
			return r.addr
		}
	}
	return r.get()
}

// allocSizeReflect is allocSize with reflect's panic messages for negatives.
func (m *Machine) allocSizeReflect(v value, what string) int {
	return m.allocSize(v, what)
}

func (m *Machine) pointerID(v value) value {
	switch x := v.(type) {
	case *value:
		if x == nil {
			return uintptr(0)
		}
		return uintptr(m.ptrSeq(x))
	case *omap:
		if x == nil {
			return uintptr(0)
		}
		return uintptr(m.ptrSeq(x))
	case []value:
		if x == nil {
			return uintptr(0)
		}
		if cap(x) == 0 {
			return uintptr(1)
		}
		return uintptr(m.ptrSeq(&x[:1][0]))
	}
	return uintptr(m.ptrSeq(v))
}

func (m *Machine) ptrSeq(k any) int {
	if m.ptrIDs == nil {
		m.ptrIDs = map[any]int{}
	}
	if id, ok := m.ptrIDs[k]; ok {
		return id
	}
	id := 0x1000 + 16*len(m.ptrIDs)
	m.ptrIDs[k] = id
	return id
}

func (m *Machine) isZeroValue(t types.Type, v value) value {
	switch x := v.(type) {
	case structure:
		st := t.Underlying().(*types.Struct)
		acc := value(true)
		for i := range x {
			acc = m.andV(acc, m.isZeroValue(st.Field(i).Type(), x[i]))
		}
		return acc
	case array:
		at := t.Underlying().(*types.Array)
		acc := value(true)
		for i := range x {
			acc = m.andV(acc, m.isZeroValue(at.Elem(), x[i]))
		}
		return acc
	case []value:
		return x == nil
	case *omap:
		return x == nil
	case *value:
		return x == nil
	case *vchan:
		return x == nil
	case iface:
		return x.t == nil
	case *ssa.Function:
		return x == nil
	case *closure:
		return x == nil
	case string:
		return x == ""
	case sstr:
		return len(x.b) == 0
	case symv:
		if x.k == types.Bool {
			return m.notV(x)
		}
		return mkScalar(m.ctx.Eq(x.t, m.ctx.BV(0, x.t.W)), types.Bool)
	case float32:
		return x == 0
	case float64:
		return x == 0
	case bool:
		return !x
	case rvalue:
		return x.t == nil
	}
	if k, ok := kindOf(v); ok && k != types.Bool {
		return bitsOf(v) == 0
	}
	return false
}

// deepEqual implements reflect.DeepEqual over engine values (concrete result;
// symbolic leaves are compared through decide).
func (m *Machine) deepEqual(a, b value, depth int) bool {
	if depth > 50 {
		panic(unsupported{"deepEqual recursion"})
	}
	switch x := a.(type) {
	case iface:
		y, ok := b.(iface)
		if !ok {
			return false
		}
		if !sameType(x.t, y.t) {
			return false
		}
		if x.t == nil {
			return true
		}
		return m.deepEqual(x.v, y.v, depth+1)
	case structure:
		y := b.(structure)
		for i := range x {
			if !m.deepEqual(x[i], y[i], depth+1) {
				return false
			}
		}
		return true
	case array:
		y := b.(array)
		for i := range x {
			if !m.deepEqual(x[i], y[i], depth+1) {
				return false
			}
		}
		return true
	case []value:
		y := b.([]value)
		if (x == nil) != (y == nil) || len(x) != len(y) {
			return false
		}
		for i := range x {
			if !m.deepEqual(x[i], y[i], depth+1) {
				return false
			}
		}
		return true
	case *value:
		y := b.(*value)
		if x == nil || y == nil {
			return x == y
		}
		if x == y {
			return true
		}
		return m.deepEqual(*x, *y, depth+1)
	case *omap:
		y := b.(*omap)
		if (x == nil) != (y == nil) || x.len() != y.len() {
			return false
		}
		if x == nil {
			return true
		}
		for i := range x.keys {
			if !x.alive[i] {
				continue
			}
			v, ok := m.omapGet(y, x.keys[i])
			if !ok || !m.deepEqual(x.vals[i], v, depth+1) {
				return false
			}
		}
		return true
	case *ssa.Function:
		y, ok := b.(*ssa.Function)
		return ok && x == nil && y == nil
	case *closure:
		return false
	}
	return m.decide(m.equalsV(nil, a, b), "deepequal")
}

var _ = strings.Builder{}
