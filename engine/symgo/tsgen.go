package symgo

// tsgen — Engine B. The real SSA of small concurrent kernels is turned into a
// pc-indexed transition relation by symbolic execution of *segments* (from one
// visible operation to the next) over a symbolic shared state, and a bounded
// model-checking query makes the schedule itself a vector of solver variables.
//
// A scenario is an ordinary harness function that (1) builds the shared
// objects with the real constructors, (2) registers the shared cells
// (vrtShared), the token table (vrtTokens), the threads (vrtThread) and the
// properties (vrtSafety / vrtFinal), and returns. Everything else is derived
// from the SSA of the code the threads call.

import (
	"fmt"
	"go/token"
	"os"
	"go/types"
	"sort"
	"strings"

	"golang.org/x/tools/go/ssa"

	"verif/engine/smt"
)

type cellKind int

const (
	cellScalar cellKind = iota
	cellToken
)

type cellInfo struct {
	p    *value
	name string
	kind cellKind
	bk   types.BasicKind
	w    int       // bit width of the state variable (0 = Bool)
	cur  *smt.Term // current-state variable
	init value     // concrete initial content
	symInit bool   // initial content unconstrained (symbolic scenario parameter)
}

// symtok is a value drawn from the scenario's token table, selected by a term.
type symtok struct {
	idx *smt.Term // BV8
}

type spawnReq struct {
	fn   value
	args []value
}

type cutSignal struct {
	frames []*frame
	label  string
}

type blockedSignal struct{ what string }

type segState struct {
	concrete    bool // replay mode: cells hold real values
	visibleSeen int
	label       string
	racy        map[*value]bool
	cells       []*cellInfo
	cellOf      map[*value]*cellInfo
	tokens      []value // token table; index 0 is the nil interface
	spawned     []spawnReq
	threads     []tsThreadDecl
	safety      []tsProp
	final       []tsProp
	visibleFns  map[string]bool
	fresh       map[*value]bool // memory allocated during the current segment
	holding     int             // mutexes acquired in the current segment and not yet released
}

// hostThread is a goroutine captured during scenario setup (function + arguments).
type hostThread struct {
	fn   value
	args []value
}

type tsThreadDecl struct {
	name string
	fn   value
}

type tsProp struct {
	name string
	fn   value
}

const tokW = 8

func (s *segState) isVisibleCallee(m *Machine, fn value) bool {
	var f *ssa.Function
	switch x := fn.(type) {
	case *ssa.Function:
		f = x
	case *closure:
		f = x.Fn
	default:
		return false
	}
	if f == nil {
		return false
	}
	name := f.String()
	if o := f.Origin(); o != nil {
		name = o.String()
	}
	if strings.HasPrefix(name, "sync/atomic.") {
		return true
	}
	switch name {
	case "(*sync.Mutex).Lock", "(*sync.Mutex).Unlock", "(*sync.RWMutex).Lock", "(*sync.RWMutex).Unlock",
		"(*sync.RWMutex).RLock", "(*sync.RWMutex).RUnlock", "(*sync.Mutex).TryLock":
		return true
	}
	if i := strings.LastIndex(name, "."); i >= 0 && name[i+1:] == "vrtVisible" {
		return true
	}
	if f.Name() == "close" {
		return false
	}
	return s.visibleFns[name]
}

// visiblePoint is called immediately before a visible operation executes.
func (m *Machine) visiblePoint(fr *frame, label string) {
	s := m.seg
	if s.holding > 0 && !strings.Contains(label, ").Lock") && !strings.Contains(label, ").RLock") && !strings.Contains(label, "chan recv") && !strings.Contains(label, "select") {
		// inside a lock region: the region up to the matching Unlock is one
		// atomic step (assumption: the protected data is only touched under
		// the same lock, or read atomically on the way to taking it).
		// Potentially blocking operations (a nested Lock, a receive) still cut:
		// the thread may then be suspended while holding the lock.
		return
	}
	if s.holding > 0 {
		s.holding = 0
		panic(cutSignal{frames: captureFrames(fr), label: label})
	}
	if s.visibleSeen >= 1 {
		panic(cutSignal{frames: captureFrames(fr), label: label})
	}
	s.visibleSeen++
	s.label = label
}

// liveAt returns the SSA values live immediately before instruction idx of
// block (classic backward dataflow on the SSA CFG, cached per function).
type liveInfo struct {
	in, out []map[ssa.Value]bool
}

var liveCache = map[*ssa.Function]*liveInfo{}

func isTracked(v ssa.Value) bool {
	switch v.(type) {
	case *ssa.Const, *ssa.Function, *ssa.Builtin, *ssa.Global:
		return false
	}
	return v != nil
}

func liveness(fn *ssa.Function) *liveInfo {
	if li, ok := liveCache[fn]; ok {
		return li
	}
	n := len(fn.Blocks)
	li := &liveInfo{in: make([]map[ssa.Value]bool, n), out: make([]map[ssa.Value]bool, n)}
	for i := range li.in {
		li.in[i], li.out[i] = map[ssa.Value]bool{}, map[ssa.Value]bool{}
	}
	var ops []*ssa.Value
	changed := true
	for changed {
		changed = false
		for bi := n - 1; bi >= 0; bi-- {
			b := fn.Blocks[bi]
			out := li.out[bi]
			for _, s := range b.Succs {
				// phi uses along this edge, and live-in of s minus its phi defs
				pi := -1
				for k, p := range s.Preds {
					if p == b {
						pi = k
					}
				}
				phidefs := map[ssa.Value]bool{}
				for _, in := range s.Instrs {
					phi, ok := in.(*ssa.Phi)
					if !ok {
						break
					}
					phidefs[phi] = true
					if pi >= 0 && isTracked(phi.Edges[pi]) && !out[phi.Edges[pi]] {
						out[phi.Edges[pi]] = true
						changed = true
					}
				}
				for v := range li.in[s.Index] {
					if !phidefs[v] && !out[v] {
						out[v] = true
						changed = true
					}
				}
			}
			live := map[ssa.Value]bool{}
			for v := range out {
				live[v] = true
			}
			for k := len(b.Instrs) - 1; k >= 0; k-- {
				in := b.Instrs[k]
				if v, ok := in.(ssa.Value); ok {
					delete(live, v)
				}
				if _, isPhi := in.(*ssa.Phi); isPhi {
					continue
				}
				ops = in.Operands(ops[:0])
				for _, o := range ops {
					if o != nil && isTracked(*o) {
						live[*o] = true
					}
				}
			}
			// phi defs are live-in conceptually defined at block entry; keep them out of live-in
			for v := range live {
				if !li.in[bi][v] {
					li.in[bi][v] = true
					changed = true
				}
			}
		}
	}
	liveCache[fn] = li
	return li
}

func liveAt(fn *ssa.Function, block *ssa.BasicBlock, idx int) map[ssa.Value]bool {
	li := liveness(fn)
	live := map[ssa.Value]bool{}
	for v := range li.out[block.Index] {
		live[v] = true
	}
	var ops []*ssa.Value
	for k := len(block.Instrs) - 1; k >= idx; k-- {
		in := block.Instrs[k]
		if v, ok := in.(ssa.Value); ok {
			delete(live, v)
		}
		if _, isPhi := in.(*ssa.Phi); isPhi {
			continue
		}
		ops = in.Operands(ops[:0])
		for _, o := range ops {
			if o != nil && isTracked(*o) {
				live[*o] = true
			}
		}
	}
	return live
}

func captureFrames(fr *frame) []*frame {
	var fs []*frame
	for f := fr; f != nil; f = f.caller {
		// drop registers that can no longer be read
		// an outer frame is suspended in its call: the call's own result is
		// not yet defined, its operands are not needed any more
		at := f.idx
		if f != fr {
			at = f.idx + 1
		}
		used := liveAt(f.fn, f.block, at)
		for k := range f.env {
			if !used[k] {
				delete(f.env, k)
			}
		}
		fs = append(fs, f)
	}
	for i, j := 0, len(fs)-1; i < j; i, j = i+1, j-1 {
		fs[i], fs[j] = fs[j], fs[i]
	}
	return fs
}

// storeCell stores into memory, keeping registered token cells in token form.
func (s *segState) storeCell(m *Machine, p *value, v value) {
	ci, registered := s.cellOf[p]
	if registered && ci.kind == cellToken && !s.concrete {
		*p = s.toToken(m, v)
		return
	}
	if !registered && !s.concrete && !s.fresh[p] {
		if _, isStruct := (*p).(structure); !isStruct || !s.structRegistered(p) {
			// a write that leaves the registered shared state: the path is cut
			// here (nothing is written) and reported as a model escape
			panic(pathEnd{"escape", "store to memory that is neither registered shared state nor allocated in this step"})
		}
	}
	store(nil, p, v)
}

// structRegistered: a store of a whole struct whose leaves are all registered.
func (s *segState) structRegistered(p *value) bool {
	st, ok := (*p).(structure)
	if !ok {
		_, reg := s.cellOf[p]
		return reg
	}
	for i := range st {
		if !s.structRegistered(&st[i]) {
			return false
		}
	}
	return true
}

func (s *segState) markFresh(p *value) {
	if s.fresh != nil && p != nil {
		s.fresh[p] = true
		switch x := (*p).(type) {
		case structure:
			for i := range x {
				s.markFresh(&x[i])
			}
		case array:
			for i := range x {
				s.markFresh(&x[i])
			}
		}
	}
}

func (s *segState) toToken(m *Machine, v value) value {
	if t, ok := v.(symtok); ok {
		return t
	}
	for i, tv := range s.tokens {
		if eq, ok := plainEqualDeep(tv, v); ok && eq {
			return symtok{m.ctx.BV(uint64(i), tokW)}
		}
	}
	panic(unsupported{"value stored into a token cell is not in the token table: " + toString(v)})
}

func (s *segState) tokenIndex(v value) (int, bool) {
	for i, tv := range s.tokens {
		if eq, ok := plainEqualDeep(tv, v); ok && eq {
			return i, true
		}
	}
	return 0, false
}

func plainEqualDeep(a, b value) (bool, bool) {
	if as, ok := a.([]value); ok {
		bs, ok2 := b.([]value)
		if !ok2 {
			return false, true
		}
		if (as == nil) != (bs == nil) || len(as) != len(bs) {
			return false, true
		}
		for i := range as {
			if eq, ok := plainEqualDeep(as[i], bs[i]); !ok || !eq {
				return false, ok
			}
		}
		return true, true
	}
	return plainEqual(a, b)
}

// resolveIface resolves a token where an interface value is required; table
// entries of another shape make the path infeasible (the token variable is
// typed by its use).
func (m *Machine) resolveIface(v value) iface {
	r := m.resolveTok(v)
	it, ok := r.(iface)
	if !ok {
		panic(pathEnd{"infeasible", "token of the wrong shape for an interface"})
	}
	return it
}

func (m *Machine) tokTable() []value {
	switch {
	case m.seg != nil:
		return m.seg.tokens
	case m.tokRead != nil:
		return m.tokRead.tokens
	case m.tsSetup != nil:
		return m.tsSetup.tokens
	}
	return nil
}

// registerCell registers the scalar / token leaves below p as state cells.
func (s *segState) registerCell(m *Machine, p *value, name string) {
	switch x := (*p).(type) {
	case structure:
		for i := range x {
			s.registerCell(m, &x[i], fmt.Sprintf("%s_f%d", name, i))
		}
		return
	case array:
		for i := range x {
			s.registerCell(m, &x[i], fmt.Sprintf("%s_%d", name, i))
		}
		return
	}
	if _, dup := s.cellOf[p]; dup {
		return
	}
	ci := &cellInfo{p: p, name: fmt.Sprintf("%s_%d", sanitize(name), len(s.cells))}
	if k, ok := kindOf(*p); ok {
		ci.kind, ci.bk, ci.w = cellScalar, k, kindWidth(k)
	} else {
		switch (*p).(type) {
		case iface, *value, []value, *ssa.Function, *closure:
			ci.kind, ci.w = cellToken, tokW
			found := false
			for _, tv := range s.tokens {
				if eq, ok := plainEqualDeep(tv, *p); ok && eq {
					found = true
				}
			}
			if !found {
				s.tokens = append(s.tokens, *p)
			}
		default:
			panic(unsupported{fmt.Sprintf("shared cell %s of kind %T", name, *p)})
		}
	}
	s.cells = append(s.cells, ci)
	s.cellOf[p] = ci
}

// resolveTok turns a token into its table value, forking over the feasible ones.
func (m *Machine) resolveTok(v value) value {
	t, ok := v.(symtok)
	if !ok {
		return v
	}
	n := m.concretize(symv{t.idx, types.Uint8}, "token")
	i := int(bitsOf(n))
	tab := m.tokTable()
	if i >= len(tab) {
		panic(pathEnd{"infeasible", "token index outside table"})
	}
	return tab[i]
}

// ---------------------------------------------------------------------------
// resuming a captured stack

func copyFrames(fs []*frame) []*frame {
	out := make([]*frame, len(fs))
	for i, f := range fs {
		c := *f
		c.env = make(map[ssa.Value]value, len(f.env))
		for k, v := range f.env {
			c.env[k] = v
		}
		c.phitemps = nil
		c.panicking, c.panic = false, nil
		if i > 0 {
			c.caller = out[i-1]
		} else {
			c.caller = nil
		}
		out[i] = &c
	}
	return out
}

// resumeStack runs frames[k:] to completion of frames[k] and returns its result.
func (m *Machine) resumeStack(frames []*frame, k int) value {
	fr := frames[k]
	fr.m = m
	if k < len(frames)-1 {
		res := m.resumeStack(frames, k+1)
		switch in := fr.block.Instrs[fr.idx].(type) {
		case *ssa.Call:
			fr.env[in] = res
			fr.resumeAt = fr.idx + 2
		case *ssa.RunDefers:
			// the inner frame was a deferred call; continue running defers
			fr.resumeAt = fr.idx + 1
		default:
			panic(engineFault{fmt.Sprintf("resume: caller frame not at a call (%T)", in)})
		}
	} else {
		fr.resumeAt = fr.idx + 1
	}
	if fr.resumeAt-1 >= len(fr.block.Instrs) {
		panic(engineFault{"resume past end of block"})
	}
	for fr.block != nil {
		m.runFrame(fr)
	}
	return fr.result
}

// ---------------------------------------------------------------------------
// relation

type TSOutcome struct {
	Guard   *smt.Term
	CellUpd map[*cellInfo]*smt.Term
	RegUpd  map[string]*smt.Term
	Next    int // pc id; -1 = terminated
	Spawns  []int
	Label   string
	Blocked bool
	Fault   string
}

type TSPC struct {
	ID       int
	Key      string
	frames   []*frame
	Outcomes []*TSOutcome
	Desc     string
	rw       *rwInfo
}

type TSThreadType struct {
	Name   string
	fn     value
	args   []value
	PCs    []*TSPC
	pcByKey map[string]*TSPC
	Regs   map[string]int // register name -> width (0 = Bool)
	regKind map[string]types.BasicKind
	regTok  map[string]bool
}

type TSModel struct {
	prog    *Program
	ctx     *smt.Ctx
	seg     *segState
	Types   []*TSThreadType
	typeBy  map[string]*TSThreadType
	Initial []int // type index per initially running thread
	Names   []string
	Safety  []TSPropTerm
	Final   []TSPropTerm
	Cells   []*cellInfo
	Funcs   map[string]int
	Notes   []string
	globals map[*ssa.Global]*value
	machine *Machine
	Stats   smt.Stats
}

type TSPropTerm struct {
	Name string
	Term *smt.Term // over current-state cell variables; true = holds
}

// pcKey identifies a cut point: the call stack plus the identity of the
// constant (pointer-like) registers, so that e.g. the handler working on token
// A and on token B are different control locations.
func pcKey(fs []*frame) string {
	var sb strings.Builder
	for _, f := range fs {
		fmt.Fprintf(&sb, "%s#%d.%d", f.fn.String(), f.block.Index, f.idx)
		var parts []string
		for k, v := range f.env {
			switch x := v.(type) {
			case *value:
				parts = append(parts, fmt.Sprintf("%s=%p", k.Name(), x))
			case iface:
				if p, ok := x.v.(*value); ok {
					parts = append(parts, fmt.Sprintf("%s=%p", k.Name(), p))
				}
			case *closure:
				parts = append(parts, fmt.Sprintf("%s=%p", k.Name(), x))
			}
		}
		sort.Strings(parts)
		sb.WriteString("{" + strings.Join(parts, ",") + "}|")
	}
	return sb.String()
}

func regName(depth int, fn *ssa.Function, v ssa.Value) string {
	return fmt.Sprintf("r%d_%s_%s", depth, sanitize(fn.Name()), sanitize(v.Name()))
}

func sanitize(s string) string {
	var sb strings.Builder
	for _, r := range s {
		if (r >= 'a' && r <= 'z') || (r >= 'A' && r <= 'Z') || (r >= '0' && r <= '9') {
			sb.WriteRune(r)
		} else {
			sb.WriteByte('_')
		}
	}
	return sb.String()
}

// BuildTS runs the scenario function and derives the transition relation.
func (p *Program) BuildTS(scenario *ssa.Function, cfg Config, solverName string, timeoutMS int) (*TSModel, error) {
	solver, err := smt.NewSolver(solverName, timeoutMS)
	if err != nil {
		return nil, err
	}
	defer solver.Close()
	ctx := smt.NewCtx()
	out := &Outcome{Reached: map[string]bool{}, Funcs: map[string]int{}, Stubs: map[string]int{}, Forks: map[string]int{}}
	seg := &segState{racy: map[*value]bool{}, cellOf: map[*value]*cellInfo{}, tokens: []value{iface{}}, visibleFns: map[string]bool{}}
	m := &Machine{prog: p, cfg: cfg, ctx: ctx, solver: solver, globals: map[*ssa.Global]*value{}, out: out,
		syncMaps: map[*value]*omap{}, sideState: map[*value]any{}, done: make(chan any, 1), killed: make(chan struct{})}
	mainG := &goroutine{id: 0, wake: make(chan struct{}, 1), what: "main"}
	m.gs, m.mainG, m.cur = []*goroutine{mainG}, mainG, mainG
	m.tsSetup = seg
	ts := &TSModel{prog: p, ctx: ctx, seg: seg, typeBy: map[string]*TSThreadType{}, Funcs: out.Funcs, globals: m.globals, machine: m}

	// 1. run the scenario setup concretely
	if err := m.protect(func() {
		if init := scenario.Pkg.Func("init"); init != nil {
			m.call(nil, token.NoPos, init, nil)
		}
		m.call(nil, token.NoPos, scenario, nil)
	}); err != nil {
		return nil, fmt.Errorf("scenario setup: %v", err)
	}
	if len(seg.threads) == 0 {
		return nil, fmt.Errorf("scenario registered no threads")
	}
	ts.Cells = seg.cells
	for _, c := range seg.cells {
		c.init = *c.p
		if c.kind == cellToken {
			c.init = seg.toToken(m, *c.p)
		}
	}
	m.seg = seg

	// 2. discover pcs per thread type
	for _, td := range seg.threads {
		var tt *TSThreadType
		if ht, ok := td.fn.(*hostThread); ok {
			tt = ts.typeFor(ht.fn, ht.args, td.name)
		} else {
			tt = ts.typeFor(td.fn, nil, td.name)
		}
		ts.Initial = append(ts.Initial, indexOfType(ts, tt))
		ts.Names = append(ts.Names, td.name)
	}
	for ti := 0; ti < len(ts.Types); ti++ {
		tt := ts.Types[ti]
		for pi := 0; pi < len(tt.PCs); pi++ {
			if err := ts.explorePC(m, tt, tt.PCs[pi]); err != nil {
				return nil, err
			}
			if len(tt.PCs) > 400 {
				var sample []string
				for _, q := range tt.PCs[len(tt.PCs)-12:] {
					sample = append(sample, q.Key)
				}
				return nil, fmt.Errorf("thread type %s: more than 400 cut points, e.g.\n%s", tt.Name, strings.Join(sample, "\n"))
			}
		}
	}
	// 3. properties as terms over the current-state variables
	if os.Getenv("TSGEN_DEBUG") != "" {
		fmt.Fprintf(os.Stderr, "tsgen: relation explored, solver stats %+v\n", solver.Stats)
	}
	for _, pr := range seg.safety {
		if os.Getenv("TSGEN_DEBUG") != "" {
			fmt.Fprintf(os.Stderr, "tsgen: property %s, solver stats %+v\n", pr.name, solver.Stats)
		}
		t, err := ts.evalProp(m, pr)
		if err != nil {
			return nil, err
		}
		ts.Safety = append(ts.Safety, TSPropTerm{pr.name, t})
	}
	for _, pr := range seg.final {
		t, err := ts.evalProp(m, pr)
		if err != nil {
			return nil, err
		}
		ts.Final = append(ts.Final, TSPropTerm{pr.name, t})
	}
	ts.Stats = solver.Stats
	return ts, nil
}

func indexOfType(ts *TSModel, tt *TSThreadType) int {
	for i, x := range ts.Types {
		if x == tt {
			return i
		}
	}
	return -1
}

// protect runs f and converts engine aborts into errors.
func (m *Machine) protect(f func()) (err error) {
	defer func() {
		if r := recover(); r != nil {
			switch x := r.(type) {
			case unsupported:
				err = fmt.Errorf("unsupported: %s", x.what)
			case engineFault:
				err = fmt.Errorf("engine fault: %s", x.msg)
			case pathEnd:
				err = fmt.Errorf("%s: %s", x.kind, x.msg)
			case targetPanic:
				err = fmt.Errorf("panic: %s", toString(x.v))
			default:
				err = fmt.Errorf("%v", r)
			}
		}
	}()
	f()
	return nil
}

func (ts *TSModel) typeFor(fn value, args []value, name string) *TSThreadType {
	key := describeFn(fn)
	for _, a := range args {
		key += fmt.Sprintf("|%p", a)
	}
	if c, ok := fn.(*closure); ok {
		key += fmt.Sprintf("|%p", c)
	}
	if tt, ok := ts.typeBy[key]; ok {
		return tt
	}
	if name == "" {
		name = describeFn(fn)
	}
	tt := &TSThreadType{Name: name, fn: fn, args: args, pcByKey: map[string]*TSPC{}, Regs: map[string]int{}, regKind: map[string]types.BasicKind{}, regTok: map[string]bool{}}
	// entry pc: a synthetic frame at block 0, instruction 0
	var f *ssa.Function
	var env []value
	switch x := fn.(type) {
	case *ssa.Function:
		f = x
	case *closure:
		f, env = x.Fn, x.Env
	}
	fr := &frame{fn: f, block: f.Blocks[0], idx: 0, env: map[ssa.Value]value{}}
	fr.locals = make([]value, len(f.Locals))
	for i, l := range f.Locals {
		fr.locals[i] = zero(deref(l.Type()))
		fr.env[l] = &fr.locals[i]
	}
	for i, p := range f.Params {
		fr.env[p] = args[i]
	}
	for i, fv := range f.FreeVars {
		fr.env[fv] = env[i]
	}
	entry := &TSPC{ID: 0, Key: "entry", frames: []*frame{fr}, Desc: "entry " + f.Name()}
	tt.PCs = append(tt.PCs, entry)
	tt.pcByKey["entry"] = entry
	ts.Types = append(ts.Types, tt)
	ts.typeBy[key] = tt
	return tt
}

// isStateValue reports whether an env value must be carried as a register
// state variable (scalars and tokens); everything else must be a constant of
// the pc.
func isStateValue(v value) bool {
	switch v.(type) {
	case symv, symtok:
		return true
	}
	return false
}

func (ts *TSModel) explorePC(m *Machine, tt *TSThreadType, pc *TSPC) error {
	queue := [][]Decision{nil}
	paths := 0
	for len(queue) > 0 {
		tr := queue[len(queue)-1]
		queue = queue[:len(queue)-1]
		paths++
		if paths > 4000 {
			return fmt.Errorf("pc %s of %s: more than 4000 segment paths", pc.Desc, tt.Name)
		}
		oc, alts, err := ts.runSegment(m, tt, pc, tr)
		if err != nil {
			return fmt.Errorf("%s @ %s: %v", tt.Name, pc.Desc, err)
		}
		queue = append(queue, alts...)
		if oc != nil {
			pc.Outcomes = append(pc.Outcomes, oc)
		}
	}
	return nil
}

func (ts *TSModel) runSegment(m *Machine, tt *TSThreadType, pc *TSPC, trail []Decision) (oc *TSOutcome, alts [][]Decision, err error) {
	seg := ts.seg
	m.solver.Reset()
	m.pc = nil
	m.model = nil
	m.trail = append([]Decision(nil), trail...)
	m.pos = 0
	m.newTrails = nil
	m.steps = 0
	seg.visibleSeen = 0
	seg.spawned = nil
	seg.label = ""
	seg.fresh = map[*value]bool{}
	seg.holding = 0
	// symbolic pre-state
	for _, c := range seg.cells {
		if c.cur == nil {
			c.cur = ts.ctx.Var("S_"+c.name, c.w)
		}
		if c.kind == cellToken {
			*c.p = symtok{c.cur}
		} else {
			*c.p = symv{c.cur, c.bk}
		}
	}
	frames := copyFrames(pc.frames)
	for _, fr := range frames {
		for i := range fr.locals {
			seg.markFresh(&fr.locals[i])
		}
	}
	startRegs := map[string]*smt.Term{}
	for d, fr := range frames {
		for k, v := range fr.env {
			name := regName(d, fr.fn, k)
			if x, ok := v.(symtok); ok || isIfaceTyped(k) {
				_ = x
				if iv, isIface := v.(iface); !ok && !isIface {
					continue
				} else if isIface {
					if _, inTable := seg.tokenIndex(iv); !inTable {
						continue // a constant of this cut point (e.g. a freshly built message)
					}
				}
				tt.Regs[name] = tokW
				tt.regTok[name] = true
				t := ts.ctx.Var("R_"+name, tokW)
				startRegs[name] = t
				fr.env[k] = symtok{t}
				continue
			}
			if kd, isScalar := kindOf(v); isScalar {
				w := kindWidth(kd)
				tt.Regs[name], tt.regKind[name] = w, kd
				t := ts.ctx.Var("R_"+name, w)
				startRegs[name] = t
				fr.env[k] = symv{t, kd}
			}
		}
	}
	var result any
	func() {
		defer func() { result = recover() }()
		if pc.ID == 0 {
			// entry: start the function from its first instruction
			fr := frames[0]
			fr.m = m
			fr.resumeAt = 0
			fr.prevBlock = nil
			for fr.block != nil {
				m.runFrame(fr)
			}
		} else {
			m.resumeStack(frames, 0)
		}
	}()
	alts = m.newTrails
	oc = &TSOutcome{CellUpd: map[*cellInfo]*smt.Term{}, RegUpd: map[string]*smt.Term{}, Next: -1, Label: seg.label}
	switch r := result.(type) {
	case nil:
		oc.Next = -1
		if oc.Label == "" {
			oc.Label = "return"
		}
	case cutSignal:
		key := pcKey(r.frames)
		next, ok := tt.pcByKey[key]
		if !ok {
			next = &TSPC{ID: len(tt.PCs), Key: key, frames: r.frames, Desc: r.label + " in " + r.frames[len(r.frames)-1].fn.Name()}
			tt.PCs = append(tt.PCs, next)
			tt.pcByKey[key] = next
		} else if err := sameConstEnv(next.frames, r.frames); err != nil {
			return nil, alts, fmt.Errorf("cut point %s reached with different constant registers: %v", next.Desc, err)
		}
		oc.Next = next.ID
		for d, fr := range r.frames {
			for k, v := range fr.env {
				name := regName(d, fr.fn, k)
				switch x := v.(type) {
				case symv:
					w := kindWidth(x.k)
					tt.Regs[name], tt.regKind[name] = w, x.k
					oc.RegUpd[name] = x.t
				case symtok:
					tt.Regs[name] = tokW
					tt.regTok[name] = true
					oc.RegUpd[name] = x.idx
				case iface:
					if isIfaceTyped(k) {
						if idx, ok := seg.tokenIndex(x); ok {
							tt.Regs[name] = tokW
							tt.regTok[name] = true
							oc.RegUpd[name] = m.ctx.BV(uint64(idx), tokW)
						}
					}
				default:
					// a scalar that happens to be concrete on this path but is a
					// register elsewhere must still be written
					if kd, isScalar := kindOf(v); isScalar {
						if _, known := tt.Regs[name]; known || true {
							w := kindWidth(kd)
							tt.Regs[name], tt.regKind[name] = w, kd
							oc.RegUpd[name] = m.termOf(v)
						}
					}
				}
			}
		}
	case blockedSignal:
		oc.Blocked = true
		oc.Label = "blocked: " + r.what
	case targetPanic:
		oc.Fault = "panic: " + toString(r.v)
	case pathEnd:
		switch r.kind {
		case "infeasible":
			return nil, alts, nil
		case "violation":
			oc.Fault = "assert: " + r.msg
		case "fatal", "deadlock", "escape":
			oc.Fault = r.kind + ": " + r.msg
		default:
			return nil, alts, fmt.Errorf("%s: %s", r.kind, r.msg)
		}
	case unsupported:
		return nil, alts, fmt.Errorf("unsupported: %s", r.what)
	case engineFault:
		return nil, alts, fmt.Errorf("engine fault: %s", r.msg)
	default:
		return nil, alts, fmt.Errorf("unexpected: %v", r)
	}
	oc.Guard = ts.ctx.And(m.pc...)
	if !oc.Blocked {
		for _, c := range seg.cells {
			var t *smt.Term
			switch x := (*c.p).(type) {
			case symv:
				t = x.t
			case symtok:
				t = x.idx
			default:
				if c.kind == cellToken {
					t = seg.toToken(m, x).(symtok).idx
				} else if _, ok := kindOf(x); ok {
					t = m.termOf(x)
				} else {
					return nil, alts, fmt.Errorf("cell %s holds a non-scalar value after the step: %s", c.name, toString(x))
				}
			}
			if t != c.cur {
				oc.CellUpd[c] = t
			}
		}
		for _, sp := range seg.spawned {
			st := ts.typeFor(sp.fn, sp.args, "")
			oc.Spawns = append(oc.Spawns, indexOfType(ts, st))
		}
	}
	return oc, alts, nil
}

func sameConstEnv(a, b []*frame) error {
	if len(a) != len(b) {
		return fmt.Errorf("stack depth %d vs %d", len(a), len(b))
	}
	for i := range a {
		for k, va := range a[i].env {
			vb, ok := b[i].env[k]
			if !ok {
				continue
			}
			if isStateValue(va) || isStateValue(vb) || isIfaceTyped(k) {
				continue
			}
			if _, isScalar := kindOf(va); isScalar {
				continue
			}
			if eq, ok := plainEqualDeep(va, vb); ok && !eq {
				return fmt.Errorf("%s in %s (%s vs %s)", k.Name(), a[i].fn.Name(), toString(va), toString(vb))
			}
		}
	}
	return nil
}

// evalProp evaluates a property function over the symbolic current state and
// returns the term "property holds".
func (ts *TSModel) evalProp(m *Machine, pr tsProp) (*smt.Term, error) {
	seg := ts.seg
	var disj []*smt.Term
	queue := [][]Decision{nil}
	for len(queue) > 0 {
		tr := queue[len(queue)-1]
		queue = queue[:len(queue)-1]
		m.solver.Reset()
		m.pc, m.model = nil, nil
		m.trail = append([]Decision(nil), tr...)
		m.pos, m.newTrails, m.steps = 0, nil, 0
		savedSeg := m.seg
		m.seg = nil
		for _, c := range seg.cells {
			if c.cur == nil {
				c.cur = ts.ctx.Var("S_"+c.name, c.w)
			}
			if c.kind == cellToken {
				*c.p = symtok{c.cur}
			} else {
				*c.p = symv{c.cur, c.bk}
			}
		}
		m.tokRead = seg
		var res value
		err := m.protect(func() { res = m.call(nil, token.NoPos, pr.fn, nil) })
		m.tokRead = nil
		m.seg = savedSeg
		queue = append(queue, m.newTrails...)
		if err != nil {
			if strings.HasPrefix(err.Error(), "infeasible") {
				continue
			}
			return nil, fmt.Errorf("property %s: %v", pr.name, err)
		}
		var rt *smt.Term
		switch x := res.(type) {
		case bool:
			rt = ts.ctx.Bool(x)
		case symv:
			rt = x.t
		default:
			return nil, fmt.Errorf("property %s does not return bool", pr.name)
		}
		disj = append(disj, ts.ctx.And(append(append([]*smt.Term{}, m.pc...), rt)...))
	}
	return ts.ctx.Or(disj...), nil
}

// ---------------------------------------------------------------------------
// bounded model checking with a symbolic schedule

type BMCOptions struct {
	K         int
	Pool      int // consumer slots per dynamically spawned thread type
	Solver    string
	TimeoutMS int
	Workers   int
	NoPOR     bool
	NarrowBits int
	widths     map[string]int // per state variable width refinement (name -> bits), filled by CheckBMC
	Parallel   bool
	DumpTo     string
	NoTactic   bool
	NoBlocked  bool // also ask for a quiescent state in which some goroutine is still blocked (deadlock / leaked goroutine)
	ProgressB  int // >0: also ask for a schedule in which, B steps after every initial thread finished, some goroutine is still runnable (spin / no termination)
}

type BMCResult struct {
	K            int
	Violated     string // property name, "" if none
	Kind         string // "safety", "final", "fault", "deadlock"
	Schedule     []int  // thread instance per step (-1 = nobody enabled)
	Labels       []string
	Threads      []string
	Unknown      bool
	PoolOverflow bool // some schedule needs more than Pool slots (excluded ones exist)
	RangeExceeded bool // some schedule drives a counter outside the narrow range (excluded)
	NotQuiescent bool // some schedule is not quiescent at depth K
	Queries      int
	SolverS      float64
	Vars, Terms  int
	StatesNote   string
	SymInit      map[string]uint64 // values of the symbolic-initial cells in the counterexample / sample
	FinalCells   map[string]uint64 // cell values at the last step (sample runs)
	Sample       *BMCResult        // a quiescent run sampled from the model (for validation against the implementation)
	ViolStep     int
	Widened      map[string]int // state variables whose narrow width had to be raised (name -> bits)
	rangeVars    []string
}

type tsInst struct {
	name  string
	typ   int
	pool  bool
	start bool
}

const (
	pcIdle    = 254
	pcDone    = 255
	schedNone = 255 // nobody is enabled (quiescence or deadlock)
	schedHalt = 253 // the explored prefix ends here (needed for partial-order reduction)
)

func (ts *TSModel) instances(pool int) []tsInst {
	var insts []tsInst
	for i, ti := range ts.Initial {
		insts = append(insts, tsInst{name: ts.Names[i], typ: ti, start: true})
	}
	for ti, tt := range ts.Types {
		isInitial := false
		for _, x := range ts.Initial {
			if x == ti {
				isInitial = true
			}
		}
		if isInitial {
			continue
		}
		for k := 0; k < pool; k++ {
			insts = append(insts, tsInst{name: fmt.Sprintf("%s#%d", shortFn(tt.Name), k), typ: ti, pool: true})
		}
	}
	return insts
}

func shortFn(s string) string {
	if i := strings.LastIndex(s, "."); i >= 0 {
		return s[i+1:]
	}
	return s
}

// CheckBMC unrolls the relation to depth K and asks for a schedule violating a
// safety property at some step, a final property at quiescence, or reaching a
// fault / deadlock. One query per property class.
func (ts *TSModel) CheckBMC(opt BMCOptions) (*BMCResult, error) {
	// The state is carried in narrow bit-vectors; whenever some schedule drives
	// a variable out of its narrow range, that variable is widened and the
	// unrolling is repeated, so no schedule is excluded for range reasons.
	opt.widths = map[string]int{}
	queries, solverS := 0, 0.0
	for round := 0; ; round++ {
		res, err := ts.checkBMCOnce(opt)
		if err != nil {
			return nil, err
		}
		queries += res.Queries
		solverS += res.SolverS
		res.Queries, res.SolverS = queries, solverS
		res.Widened = opt.widths
		if res.Violated != "" || res.Unknown || !res.RangeExceeded || len(res.rangeVars) == 0 || round > 8 {
			return res, nil
		}
		for _, n := range res.rangeVars {
			w := opt.widths[n]
			if w == 0 {
				w = opt.NarrowBits
				if w == 0 {
					w = 8
				}
			}
			_ = w
			opt.widths[n] = 64
		}
	}
}

func (ts *TSModel) checkBMCOnce(opt BMCOptions) (*BMCResult, error) {
	c := ts.ctx
	insts := ts.instances(opt.Pool)
	res := &BMCResult{K: opt.K}
	for _, in := range insts {
		res.Threads = append(res.Threads, in.name)
	}
	K := opt.K
	// narrow state variables: scalar cells and registers are carried in NW
	// bits; every update is checked to fit (range flag), so within a run whose
	// range flag stays false the narrow model coincides with the full-width one
	NW := opt.NarrowBits
	if NW == 0 {
		NW = 8
	}
	narrowW := func(name string, w int) int {
		nw := NW
		if x, ok := opt.widths[name]; ok {
			nw = x
		}
		if w == 0 || w <= nw {
			return w
		}
		return nw
	}
	badBy := map[string][]*smt.Term{}
	type stepVars struct {
		cell  map[*cellInfo]*smt.Term
		pc    []*smt.Term
		reg   []map[string]*smt.Term
		sched *smt.Term
		ovf   *smt.Term
		fault *smt.Term
		rng   *smt.Term
	}
	steps := make([]*stepVars, K+1)
	for i := 0; i <= K; i++ {
		sv := &stepVars{cell: map[*cellInfo]*smt.Term{}}
		for _, ci := range ts.Cells {
			sv.cell[ci] = c.Var(fmt.Sprintf("c%d_%s", i, ci.name), narrowW("c:"+ci.name, ci.w))
		}
		for t, in := range insts {
			sv.pc = append(sv.pc, c.Var(fmt.Sprintf("pc%d_%d", i, t), 8))
			regs := map[string]*smt.Term{}
			for rn, w := range ts.Types[in.typ].Regs {
				regs[rn] = c.Var(fmt.Sprintf("g%d_%d_%s", i, t, rn), narrowW("r:"+ts.Types[in.typ].Name+":"+rn, w))
			}
			sv.reg = append(sv.reg, regs)
		}
		sv.sched = c.Var(fmt.Sprintf("sched%d", i), 8)
		sv.ovf = c.Var(fmt.Sprintf("ovf%d", i), 0)
		sv.fault = c.Var(fmt.Sprintf("fault%d", i), 0)
		sv.rng = c.Var(fmt.Sprintf("rng%d", i), 0)
		steps[i] = sv
	}
	var asserts []*smt.Term
	// initial state
	for _, ci := range ts.Cells {
		if ci.symInit {
			continue
		}
		var t *smt.Term
		switch x := ci.init.(type) {
		case symtok:
			t = x.idx
		default:
			if ci.w == 0 {
				t = c.Bool(x.(bool))
			} else {
				t = c.BV(bitsOf(x), narrowW("c:"+ci.name, ci.w))
			}
		}
		asserts = append(asserts, c.Eq(steps[0].cell[ci], t))
	}
	for t, in := range insts {
		if in.start {
			asserts = append(asserts, c.Eq(steps[0].pc[t], c.BV(0, 8)))
		} else {
			asserts = append(asserts, c.Eq(steps[0].pc[t], c.BV(pcIdle, 8)))
		}
	}
	asserts = append(asserts, c.Not(steps[0].ovf), c.Not(steps[0].fault), c.Not(steps[0].rng))

	// substitution of current-state variables by step-i variables of thread t
	substFor := func(i, t int) (func(v *smt.Term) *smt.Term, map[*smt.Term]*smt.Term) {
		sv := steps[i]
		cellByVar := map[*smt.Term]*smt.Term{}
		for _, ci := range ts.Cells {
			cellByVar[ci.cur] = widen(c, sv.cell[ci], ci.w, kindSignedSafe(ci))
		}
		f := func(v *smt.Term) *smt.Term {
			if r, ok := cellByVar[v]; ok {
				return r
			}
			if strings.HasPrefix(v.Name, "R_") && t >= 0 {
				rn := v.Name[2:]
				if r, ok := sv.reg[t][rn]; ok {
					tt := ts.Types[insts[t].typ]
					signed := false
					if k, ok := tt.regKind[rn]; ok {
						signed = kindSigned(k)
					}
					return widen(c, r, tt.Regs[rn], signed)
				}
			}
			return nil
		}
		return f, map[*smt.Term]*smt.Term{}
	}

	var quiescent []*smt.Term
	faultNames := map[string]bool{}
	for i := 0; i < K; i++ {
		cur, nxt := steps[i], steps[i+1]
		type sel struct {
			t    int
			pc   *TSPC
			oc   *TSOutcome
			cond *smt.Term
			f    func(v *smt.Term) *smt.Term
			memo map[*smt.Term]*smt.Term
		}
		var sels []sel
		var enabledAny []*smt.Term
		enabledT := make([]*smt.Term, len(insts))
		for t, in := range insts {
			tt := ts.Types[in.typ]
			f, memo := substFor(i, t)
			var en []*smt.Term
			for _, pc := range tt.PCs {
				at := c.Eq(cur.pc[t], c.BV(uint64(pc.ID), 8))
				for _, oc := range pc.Outcomes {
					if oc.Blocked {
						continue
					}
					g := c.And(at, c.Subst(oc.Guard, f, memo))
					en = append(en, g)
					sels = append(sels, sel{t, pc, oc, c.And(c.Eq(cur.sched, c.BV(uint64(t), 8)), g), f, memo})
				}
			}
			enabledT[t] = c.Or(en...)
			enabledAny = append(enabledAny, enabledT[t])
		}
		anyEnabled := c.Or(enabledAny...)
		// scheduling constraint
		var schedOK []*smt.Term
		for t := range insts {
			schedOK = append(schedOK, c.And(c.Eq(cur.sched, c.BV(uint64(t), 8)), enabledT[t]))
		}
		schedOK = append(schedOK, c.And(c.Eq(cur.sched, c.BV(schedNone, 8)), c.Not(anyEnabled)))
		schedOK = append(schedOK, c.Eq(cur.sched, c.BV(schedHalt, 8)))
		asserts = append(asserts, c.Or(schedOK...))
		if i > 0 {
			// once halted, always halted
			asserts = append(asserts, c.Implies(c.Eq(steps[i-1].sched, c.BV(schedHalt, 8)), c.Eq(cur.sched, c.BV(schedHalt, 8))))
		}
		// partial-order reduction: two adjacent steps of different threads
		// whose cut points are statically independent must appear in thread
		// order (every Mazurkiewicz trace keeps its sorted representative; the
		// halt option keeps every prefix representable)
		if !opt.NoPOR && i+1 < K {
			for t, in := range insts {
				for u, in2 := range insts {
					if u >= t {
						continue
					}
					for _, p := range ts.Types[in.typ].PCs {
						for _, q := range ts.Types[in2.typ].PCs {
							if !ts.independent(p, q) {
								continue
							}
							asserts = append(asserts, c.Not(c.And(
								c.Eq(cur.sched, c.BV(uint64(t), 8)), c.Eq(cur.pc[t], c.BV(uint64(p.ID), 8)),
								c.Eq(steps[i+1].sched, c.BV(uint64(u), 8)), c.Eq(cur.pc[u], c.BV(uint64(q.ID), 8)))))
						}
					}
				}
			}
		}
		quiescent = append(quiescent, c.Not(anyEnabled))

		// next-state functions
		rng := cur.rng
		for _, ci := range ts.Cells {
			next := widen(c, cur.cell[ci], ci.w, kindSignedSafe(ci))
			for _, s := range sels {
				if u, ok := s.oc.CellUpd[ci]; ok {
					next = c.Ite(s.cond, c.Subst(u, s.f, s.memo), next)
				}
			}
			nv, bad := narrow(c, next, narrowW("c:"+ci.name, ci.w), kindSignedSafe(ci))
			asserts = append(asserts, c.Eq(nxt.cell[ci], nv))
			rng = c.Or(rng, bad)
			if bad != c.False {
				badBy["c:"+ci.name] = append(badBy["c:"+ci.name], bad)
			}
		}
		ovf := cur.ovf
		fault := cur.fault
		for t, in := range insts {
			tt := ts.Types[in.typ]
			nextPC := cur.pc[t]
			for _, s := range sels {
				if s.t != t {
					continue
				}
				target := uint64(pcDone)
				if s.oc.Next >= 0 {
					target = uint64(s.oc.Next)
				} else if in.pool {
					target = pcIdle
				}
				if s.oc.Fault != "" {
					target = pcDone
				}
				nextPC = c.Ite(s.cond, c.BV(target, 8), nextPC)
			}
			// started by a spawn of its type?
			if in.pool {
				var lowerBusy []*smt.Term
				for u := 0; u < t; u++ {
					if insts[u].pool && insts[u].typ == in.typ {
						lowerBusy = append(lowerBusy, c.Ne(cur.pc[u], c.BV(pcIdle, 8)))
					}
				}
				for _, s := range sels {
					for _, spt := range s.oc.Spawns {
						if spt != in.typ {
							continue
						}
						start := c.And(append([]*smt.Term{s.cond, c.Eq(cur.pc[t], c.BV(pcIdle, 8))}, lowerBusy...)...)
						nextPC = c.Ite(start, c.BV(0, 8), nextPC)
					}
				}
			}
			asserts = append(asserts, c.Eq(nxt.pc[t], nextPC))
			for rn := range tt.Regs {
				rsigned := false
				if k, ok := tt.regKind[rn]; ok {
					rsigned = kindSigned(k)
				}
				nr := widen(c, cur.reg[t][rn], tt.Regs[rn], rsigned)
				for _, s := range sels {
					if s.t != t {
						continue
					}
					if u, ok := s.oc.RegUpd[rn]; ok {
						nr = c.Ite(s.cond, c.Subst(u, s.f, s.memo), nr)
					}
				}
				signed := false
				if k, ok := tt.regKind[rn]; ok {
					signed = kindSigned(k)
				}
				nrv, bad := narrow(c, nr, narrowW("r:"+tt.Name+":"+rn, tt.Regs[rn]), signed)
				asserts = append(asserts, c.Eq(nxt.reg[t][rn], nrv))
				rng = c.Or(rng, bad)
				if bad != c.False {
					badBy["r:"+tt.Name+":"+rn] = append(badBy["r:"+tt.Name+":"+rn], bad)
				}
			}
		}
		for _, s := range sels {
			if s.oc.Fault != "" {
				fault = c.Or(fault, s.cond)
				faultNames[s.oc.Fault] = true
			}
			for _, spt := range s.oc.Spawns {
				var allBusy []*smt.Term
				found := false
				for u, in := range insts {
					if in.pool && in.typ == spt {
						found = true
						allBusy = append(allBusy, c.Ne(cur.pc[u], c.BV(pcIdle, 8)))
					}
				}
				if !found {
					allBusy = []*smt.Term{c.True}
				}
				ovf = c.Or(ovf, c.And(append([]*smt.Term{s.cond}, allBusy...)...))
			}
		}
		asserts = append(asserts, c.Eq(nxt.ovf, ovf), c.Eq(nxt.fault, fault), c.Eq(nxt.rng, rng))
	}
	// the last step's quiescence (no transition taken from it)
	{
		var en []*smt.Term
		for t, in := range insts {
			tt := ts.Types[in.typ]
			f, memo := substFor(K, t)
			for _, pc := range tt.PCs {
				at := c.Eq(steps[K].pc[t], c.BV(uint64(pc.ID), 8))
				for _, oc := range pc.Outcomes {
					if !oc.Blocked {
						en = append(en, c.And(at, c.Subst(oc.Guard, f, memo)))
					}
				}
			}
		}
		quiescent = append(quiescent, c.Not(c.Or(en...)))
	}

	solver, err := smt.NewSolver(opt.Solver, opt.TimeoutMS)
	if err != nil {
		return nil, err
	}
	defer solver.Close()
	if opt.Parallel {
		solver.Parallel = true
		solver.Reset()
	}
	if !opt.NoTactic {
		// measured on the mailbox relation at K=16: 57 s with the default
		// strategy, 2.9 s with explicit bit-blasting
		solver.Tactic = "(then simplify propagate-values solve-eqs simplify bit-blast sat)"
	}
	if opt.DumpTo != "" {
		if f, err := os.Create(opt.DumpTo); err == nil {
			solver.Log = f
			defer f.Close()
		}
	}
	for _, a := range asserts {
		solver.Assert(a)
	}
	noOvf := c.And(c.Not(steps[K].ovf), c.Not(steps[K].rng))
	var schedVars []*smt.Term
	for i := 0; i < K; i++ {
		schedVars = append(schedVars, steps[i].sched)
	}
	var cellVars0, cellVarsK []*smt.Term
	for _, ci := range ts.Cells {
		cellVars0 = append(cellVars0, steps[0].cell[ci])
		cellVarsK = append(cellVarsK, steps[K].cell[ci])
	}
	qK := c.Var("quiescent_at_K", 0)
	solver.Assert(c.Eq(qK, quiescent[K]))
	extractInto := func(r *BMCResult, model map[string]uint64) {
		defer func() {
			// the state after the last step is quiescent: say so for the replayer
			if model[qK.Name] == 1 && (len(r.Schedule) == 0 || r.Schedule[len(r.Schedule)-1] >= 0) {
				r.Schedule = append(r.Schedule, -1)
			} else if model[qK.Name] == 1 && r.Schedule[len(r.Schedule)-1] == -2 {
				// the prefix was halted in a state that happens to be quiescent (the
				// state is frozen after HALT, so the state at K is the state at the
				// first HALT): tell the replayer to verify quiescence and evaluate
				// the final properties there
				for i, s := range r.Schedule {
					if s == -2 {
						r.Schedule[i] = -1
						break
					}
				}
			}
		}()
		for i := 0; i < K; i++ {
			s := int(model[steps[i].sched.Name])
			switch s {
			case schedNone:
				s = -1
			case schedHalt:
				s = -2
			}
			r.Schedule = append(r.Schedule, s)
		}
		r.SymInit, r.FinalCells = map[string]uint64{}, map[string]uint64{}
		for _, ci := range ts.Cells {
			if ci.symInit {
				r.SymInit[ci.name] = model[steps[0].cell[ci].Name]
			}
			r.FinalCells[ci.name] = model[steps[K].cell[ci].Name]
		}
	}
	extract := func(model map[string]uint64) { extractInto(res, model) }
	// one query for "some property is violated"; the model tells which
	{
		type cand struct {
			name, kind string
			ind        *smt.Term
		}
		var cands []cand
		if len(faultNames) > 0 {
			var names []string
			for n := range faultNames {
				names = append(names, n)
			}
			sort.Strings(names)
			cands = append(cands, cand{"no-fault (" + strings.Join(names, "; ") + ")", "fault", steps[K].fault})
		}
		for _, pr := range ts.Safety {
			var viol []*smt.Term
			for i := 0; i <= K; i++ {
				f, memo := substFor(i, -1)
				viol = append(viol, c.Not(c.Subst(pr.Term, f, memo)))
			}
			cands = append(cands, cand{pr.Name, "safety", c.Or(viol...)})
		}
		// a final property is evaluated at a state where nobody can move; for i<K
		// the schedule must say so explicitly (NONE), which loses nothing (a
		// quiescent state stays quiescent) and tells the replayer where to look
		quiescentAt := func(i int) *smt.Term {
			if i < K {
				return c.And(quiescent[i], c.Eq(steps[i].sched, c.BV(schedNone, 8)))
			}
			return quiescent[i]
		}
		for _, pr := range ts.Final {
			var viol []*smt.Term
			for i := 0; i <= K; i++ {
				f, memo := substFor(i, -1)
				viol = append(viol, c.And(quiescentAt(i), c.Not(c.Subst(pr.Term, f, memo))))
			}
			cands = append(cands, cand{pr.Name, "final", c.Or(viol...)})
		}
		if opt.NoBlocked {
			var viol []*smt.Term
			for i := 0; i <= K; i++ {
				var stuck []*smt.Term
				for t := range insts {
					stuck = append(stuck, c.And(c.Ne(steps[i].pc[t], c.BV(pcDone, 8)), c.Ne(steps[i].pc[t], c.BV(pcIdle, 8))))
				}
				viol = append(viol, c.And(quiescentAt(i), c.Or(stuck...)))
			}
			cands = append(cands, cand{"no-goroutine-blocked-forever", "blocked", c.Or(viol...)})
		}
		if opt.ProgressB > 0 && K-opt.ProgressB >= 0 {
			var done []*smt.Term
			for t, in := range insts {
				if in.start {
					done = append(done, c.Eq(steps[K-opt.ProgressB].pc[t], c.BV(pcDone, 8)))
				}
			}
			var noHalt []*smt.Term
			for i := 0; i < K; i++ {
				noHalt = append(noHalt, c.Ne(steps[i].sched, c.BV(schedHalt, 8)))
			}
			cands = append(cands, cand{fmt.Sprintf("goroutines-terminate-within-%d-steps-after-last-caller-returned", opt.ProgressB), "progress",
				c.And(append(append(done, noHalt...), c.Not(quiescent[K]))...)})
		}
		var inds, goals []*smt.Term
		for i, cd := range cands {
			v := c.Var(fmt.Sprintf("bad_%d", i), 0)
			asserts2 := c.Eq(v, cd.ind)
			solver.Assert(asserts2)
			inds = append(inds, v)
			goals = append(goals, v)
		}
		want := append(append(append(append([]*smt.Term{qK}, schedVars...), inds...), cellVars0...), cellVarsK...)
		r, model := solver.Check([]*smt.Term{c.Or(goals...), noOvf}, want)
		res.Queries++
		switch r {
		case smt.Sat:
			for i, cd := range cands {
				if model[inds[i].Name] == 1 {
					res.Violated, res.Kind = cd.name, cd.kind
					break
				}
			}
			extract(model)
			goto done
		case smt.Unknown:
			res.Unknown = true
		}
	}
	// companion queries: what lies beyond the bound
	if r, _ := solver.Check([]*smt.Term{c.Not(quiescent[K]), noOvf, c.Ne(steps[K-1].sched, c.BV(schedHalt, 8))}, nil); r != smt.Unsat {
		res.NotQuiescent = true
	}
	res.Queries++
	if r, _ := solver.Check([]*smt.Term{steps[K].ovf}, nil); r != smt.Unsat {
		res.PoolOverflow = true
	}
	res.Queries++
	{
		var names []string
		for n := range badBy {
			names = append(names, n)
		}
		sort.Strings(names)
		var flags []*smt.Term
		for i, n := range names {
			v := c.Var(fmt.Sprintf("rngv_%d", i), 0)
			solver.Assert(c.Eq(v, c.Or(badBy[n]...)))
			flags = append(flags, v)
		}
		if r, model := solver.Check([]*smt.Term{steps[K].rng}, flags); r != smt.Unsat {
			res.RangeExceeded = true
			for i, n := range names {
				if r == smt.Sat && model[flags[i].Name] == 1 {
					res.rangeVars = append(res.rangeVars, n)
				}
			}
			if r != smt.Sat {
				res.rangeVars = names
			}
		}
	}
	res.Queries++
	{
		// a sample run (quiescent if the bound allows) for validation against the implementation
		want := append(append(append([]*smt.Term{qK}, schedVars...), cellVars0...), cellVarsK...)
		goal := []*smt.Term{noOvf, c.Ne(steps[K-1].sched, c.BV(schedHalt, 8))}
		r, model := solver.Check(append(goal, quiescent[K]), want)
		if r != smt.Sat {
			r, model = solver.Check(goal, want)
		}
		res.Queries++
		if r == smt.Sat {
			res.Sample = &BMCResult{K: K, Threads: res.Threads}
			extractInto(res.Sample, model)
		}
	}
done:
	res.SolverS = float64(solver.Stats.SolverNS) / 1e9
	res.Vars = len(c.Vars)
	res.Terms = c.NumTerms()
	return res, nil
}

// Describe renders the relation for evidence/debugging.
func (ts *TSModel) Describe() []string {
	var out []string
	for _, tt := range ts.Types {
		out = append(out, fmt.Sprintf("thread type %s: %d cut points, %d registers", tt.Name, len(tt.PCs), len(tt.Regs)))
		for _, pc := range tt.PCs {
			for _, oc := range pc.Outcomes {
				next := "done"
				if oc.Next >= 0 {
					next = fmt.Sprint(oc.Next)
				}
				extra := ""
				if oc.Blocked {
					extra = " BLOCKED"
				}
				if oc.Fault != "" {
					extra += " FAULT(" + oc.Fault + ")"
				}
				if len(oc.Spawns) > 0 {
					extra += fmt.Sprintf(" spawns=%v", oc.Spawns)
				}
				out = append(out, fmt.Sprintf("  pc %d [%s] --%s--> %s guard=%s upd=%d%s", pc.ID, pc.Desc, oc.Label, next, oc.Guard.String(), len(oc.CellUpd), extra))
			}
		}
	}
	return out
}


func kindSignedSafe(ci *cellInfo) bool {
	return ci.kind == cellScalar && ci.w > 0 && kindSigned(ci.bk)
}

// widen extends a narrow state variable to the full width of the cell.
func widen(c *smt.Ctx, v *smt.Term, w int, signed bool) *smt.Term {
	if w == 0 || v.W == w {
		return v
	}
	if signed {
		return c.SExt(v, w)
	}
	return c.ZExt(v, w)
}

// narrow truncates a full-width next value and reports whether it did not fit.
func narrow(c *smt.Ctx, t *smt.Term, nw int, signed bool) (*smt.Term, *smt.Term) {
	if t.W == 0 || t.W == nw {
		return t, c.False
	}
	lo := c.Extract(t, nw-1, 0)
	back := widen(c, lo, t.W, signed)
	return lo, c.Ne(back, t)
}


func isIfaceTyped(v ssa.Value) bool {
	_, ok := v.Type().Underlying().(*types.Interface)
	return ok
}


// rwSets collects the cells a cut point may read or write (all outcomes).
func (ts *TSModel) rwSets(pc *TSPC) (reads, writes map[*cellInfo]bool, global bool) {
	if pc.rw != nil {
		return pc.rw.r, pc.rw.w, pc.rw.g
	}
	reads, writes = map[*cellInfo]bool{}, map[*cellInfo]bool{}
	byVar := map[*smt.Term]*cellInfo{}
	for _, ci := range ts.Cells {
		byVar[ci.cur] = ci
	}
	seen := map[*smt.Term]bool{}
	var walk func(t *smt.Term)
	walk = func(t *smt.Term) {
		if seen[t] {
			return
		}
		seen[t] = true
		if ci, ok := byVar[t]; ok {
			reads[ci] = true
		}
		for _, a := range t.Args {
			walk(a)
		}
	}
	for _, oc := range pc.Outcomes {
		if len(oc.Spawns) > 0 || oc.Fault != "" || oc.Blocked {
			global = true
		}
		if oc.Next < 0 {
			global = true // termination frees a pool slot / changes enabledness globally
		}
		walk(oc.Guard)
		for ci, u := range oc.CellUpd {
			writes[ci] = true
			walk(u)
		}
		for _, u := range oc.RegUpd {
			walk(u)
		}
	}
	pc.rw = &rwInfo{reads, writes, global}
	return
}

type rwInfo struct {
	r, w map[*cellInfo]bool
	g    bool
}

// independent: no outcome of p conflicts with any outcome of q.
func (ts *TSModel) independent(p, q *TSPC) bool {
	r1, w1, g1 := ts.rwSets(p)
	r2, w2, g2 := ts.rwSets(q)
	if g1 || g2 {
		return false
	}
	for c := range w1 {
		if r2[c] || w2[c] {
			return false
		}
	}
	for c := range w2 {
		if r1[c] {
			return false
		}
	}
	return true
}

// ---------------------------------------------------------------------------
// replay of a schedule on the real code in the interpreter (concrete values)

type TSReplay struct {
	Steps       []string // label per step
	Violated    string   // property found violated during the replay ("" if none)
	Kind        string
	Fault       string
	FinalCells  map[string]uint64
	Mismatch    string // non-empty if the run could not follow the schedule
	Quiescent   bool
	Blocked     int // threads found blocked at the (verified) quiescent point
	StillRunnable int // thread instances that could still run when the schedule ended
}

// ReplayTS re-runs the scenario from scratch and executes the given schedule
// (thread instance per step) on the real SSA with concrete values, evaluating
// the registered properties after every step.
func (p *Program) ReplayTS(scenario *ssa.Function, cfg Config, pool int, schedule []int, symInit map[string]uint64) (*TSReplay, error) {
	ctx := smt.NewCtx()
	out := &Outcome{Reached: map[string]bool{}, Funcs: map[string]int{}, Stubs: map[string]int{}, Forks: map[string]int{}}
	seg := &segState{racy: map[*value]bool{}, cellOf: map[*value]*cellInfo{}, tokens: []value{iface{}}, visibleFns: map[string]bool{}, concrete: true}
	m := &Machine{prog: p, cfg: cfg, ctx: ctx, globals: map[*ssa.Global]*value{}, out: out,
		syncMaps: map[*value]*omap{}, sideState: map[*value]any{}, done: make(chan any, 1), killed: make(chan struct{})}
	mainG := &goroutine{id: 0, wake: make(chan struct{}, 1), what: "main"}
	m.gs, m.mainG, m.cur = []*goroutine{mainG}, mainG, mainG
	m.tsSetup = seg
	if err := m.protect(func() {
		if init := scenario.Pkg.Func("init"); init != nil {
			m.call(nil, token.NoPos, init, nil)
		}
		m.call(nil, token.NoPos, scenario, nil)
	}); err != nil {
		return nil, fmt.Errorf("scenario setup: %v", err)
	}
	for _, c := range seg.cells {
		if v, ok := symInit[c.name]; ok && c.symInit {
			if c.kind == cellToken {
				if int(v) < len(seg.tokens) {
					*c.p = seg.tokens[v]
				}
			} else {
				*c.p = fromBits(c.bk, v)
			}
		}
	}
	m.seg = seg
	rp := &TSReplay{}
	type inst struct {
		fn     value
		args   []value
		frames []*frame
		state  int // 0 idle, 1 ready at entry, 2 suspended at frames, 3 done
		pool   bool
		key    string
	}
	var insts []*inst
	for _, td := range seg.threads {
		if ht, ok := td.fn.(*hostThread); ok {
			insts = append(insts, &inst{fn: ht.fn, args: ht.args, state: 1})
		} else {
			insts = append(insts, &inst{fn: td.fn, state: 1})
		}
	}
	// pool slots are created lazily per spawned type, in order of first spawn,
	// mirroring TSModel.instances (types are discovered in the same order
	// because the relation builder explores threads in declaration order)
	poolByKey := map[string][]*inst{}
	var poolOrder []string
	ensurePool := func(sp spawnReq) []*inst {
		key := describeFn(sp.fn)
		for _, a := range sp.args {
			key += fmt.Sprintf("|%p", a)
		}
		if sl, ok := poolByKey[key]; ok {
			return sl
		}
		var sl []*inst
		for k := 0; k < pool; k++ {
			in := &inst{pool: true, key: key}
			sl = append(sl, in)
			insts = append(insts, in)
		}
		poolByKey[key] = sl
		poolOrder = append(poolOrder, key)
		return sl
	}
	evalProps := func(props []tsProp, kind string) bool {
		for _, pr := range props {
			var res value
			saved := m.seg
			m.seg = nil
			err := m.protect(func() { res = m.call(nil, token.NoPos, pr.fn, nil) })
			m.seg = saved
			if err != nil {
				rp.Mismatch = "property " + pr.name + ": " + err.Error()
				return false
			}
			if b, ok := res.(bool); ok && !b {
				rp.Violated, rp.Kind = pr.name, kind
				return false
			}
		}
		return true
	}
	anyEnabled := func() bool {
		for _, in := range insts {
			if in.state == 1 || in.state == 2 {
				return true // (a blocked thread counts as enabled here; refined by the step itself)
			}
		}
		return false
	}
	for stepNo, t := range schedule {
		if t == -2 {
			break
		}
		if t == -1 {
			// the model says nobody can move: check it on the implementation by
			// trying every unfinished thread (a blocked one raises blockedSignal
			// at its first operation, without side effects)
			if !rp.Quiescent {
				for ti, in := range insts {
					if in.state != 1 && in.state != 2 {
						continue
					}
					seg.visibleSeen, seg.spawned, seg.label, seg.holding = 0, nil, "", 0
					var result any
					func() {
						defer func() { result = recover() }()
						if in.state == 1 {
							m.call(nil, token.NoPos, in.fn, in.args)
						} else {
							m.resumeStack(copyFrames(in.frames), 0)
						}
					}()
					if _, isBlocked := result.(blockedSignal); !isBlocked {
						rp.Mismatch = fmt.Sprintf("step %d: the model says nobody can move, but thread %d can", stepNo, ti)
						return rp, nil
					}
					rp.Blocked++
				}
			}
			rp.Quiescent = true
			if !evalProps(seg.final, "final") {
				return rp, nil
			}
			continue
		}
		if t >= len(insts) {
			// pool instance indices depend on discovery order; make sure pools exist
			rp.Mismatch = fmt.Sprintf("step %d: schedule names thread %d, only %d exist", stepNo, t, len(insts))
			return rp, nil
		}
		in := insts[t]
		if in.state != 1 && in.state != 2 {
			rp.Mismatch = fmt.Sprintf("step %d: thread %d is not runnable (state %d)", stepNo, t, in.state)
			return rp, nil
		}
		seg.visibleSeen, seg.spawned, seg.label, seg.holding = 0, nil, "", 0
		var result any
		func() {
			defer func() { result = recover() }()
			if in.state == 1 {
				m.call(nil, token.NoPos, in.fn, in.args)
			} else {
				m.resumeStack(in.frames, 0)
			}
		}()
		switch r := result.(type) {
		case nil:
			in.state = 3
			if in.pool {
				in.state = 0
			}
		case cutSignal:
			in.frames, in.state = r.frames, 2
		case blockedSignal:
			rp.Mismatch = fmt.Sprintf("step %d: thread %d is blocked (%s)", stepNo, t, r.what)
			return rp, nil
		case targetPanic:
			rp.Fault = "panic: " + toString(r.v)
			rp.Violated, rp.Kind = "no-fault", "fault"
			rp.Steps = append(rp.Steps, seg.label+" -> "+rp.Fault)
			return rp, nil
		case pathEnd:
			rp.Fault = r.kind + ": " + r.msg
			rp.Violated, rp.Kind = "no-fault", "fault"
			return rp, nil
		default:
			return nil, fmt.Errorf("replay step %d: %v", stepNo, r)
		}
		rp.Steps = append(rp.Steps, fmt.Sprintf("t%d %s", t, seg.label))
		for _, sp := range seg.spawned {
			sl := ensurePool(sp)
			started := false
			for _, slot := range sl {
				if slot.state == 0 {
					slot.fn, slot.args, slot.state = sp.fn, sp.args, 1
					started = true
					break
				}
			}
			if !started {
				rp.Mismatch = fmt.Sprintf("step %d: goroutine pool exhausted", stepNo)
				return rp, nil
			}
		}
		if !evalProps(seg.safety, "safety") {
			return rp, nil
		}
	}
	_ = anyEnabled
	for _, in := range insts {
		if in.state == 1 || in.state == 2 {
			rp.StillRunnable++
		}
	}
	rp.FinalCells = map[string]uint64{}
	for _, c := range seg.cells {
		switch x := (*c.p).(type) {
		case bool:
			if x {
				rp.FinalCells[c.name] = 1
			} else {
				rp.FinalCells[c.name] = 0
			}
		default:
			if _, ok := kindOf(x); ok {
				rp.FinalCells[c.name] = bitsOf(x)
			} else {
				for i, tv := range seg.tokens {
					if eq, ok := plainEqualDeep(tv, x); ok && eq {
						rp.FinalCells[c.name] = uint64(i)
					}
				}
			}
		}
	}
	return rp, nil
}

// CellDescs lists the shared cells with their initial contents (diagnostics).
func (ts *TSModel) CellDescs() []string {
	var out []string
	for _, ci := range ts.Cells {
		out = append(out, fmt.Sprintf("%s w=%d init=%v symInit=%v", ci.cur.Name, ci.w, ci.init, ci.symInit))
	}
	return out
}
