// Package symgo is a symbolic interpreter for go/ssa, derived from
// golang.org/x/tools/go/ssa/interp (BSD licence, The Go Authors). Scalars may
// be SMT bit-vector terms; control forks on symbolic conditions through a
// decision trail (stateless dynamic symbolic execution).
package symgo

import (
	"bytes"
	"fmt"
	"go/types"
	"strings"
	"unsafe"

	"golang.org/x/tools/go/ssa"

	"verif/engine/smt"
)

// value is a boxed interpreter value. Dynamic types:
//
//   bool, int*, uint*, uintptr, float*, complex*, string  -- concrete scalars
//   symv        -- symbolic bool / integer (SMT term)
//   sstr        -- string with possibly-symbolic bytes (concrete length)
//   []value     -- slice
//   array, structure, tuple
//   *value      -- pointer
//   iface       -- interface value
//   *omap       -- map (ordered association list)
//   *vchan      -- channel
//   *ssa.Function, *ssa.Builtin, *closure -- functions
//   rtype       -- reflect.Type implementation
//   rvalue      -- reflect.Value
//   *native     -- opaque host object (compiled regexp, …)
type value any

type tuple []value
type array []value
type structure []value

type iface struct {
	t types.Type
	v value
}

type closure struct {
	Fn  *ssa.Function
	Env []value
}

type bad struct{}

// symv is a symbolic scalar: t has the bit width of the Go kind k (Bool: W=0).
type symv struct {
	t *smt.Term
	k types.BasicKind
}

// sstr is an immutable string whose bytes may be symbolic (uint8 or symv{Uint8}).
type sstr struct {
	b []value
}

// native wraps a host-side object that interpreted code only passes around.
type native struct {
	tag string
	obj any
}

type iter interface {
	next(m *Machine) tuple
}

func kindWidth(k types.BasicKind) int {
	switch k {
	case types.Bool:
		return 0
	case types.Int8, types.Uint8:
		return 8
	case types.Int16, types.Uint16:
		return 16
	case types.Int32, types.Uint32:
		return 32
	case types.Int, types.Int64, types.Uint, types.Uint64, types.Uintptr:
		return 64
	}
	panic(fmt.Sprintf("kindWidth: %v", k))
}

func kindSigned(k types.BasicKind) bool {
	switch k {
	case types.Int, types.Int8, types.Int16, types.Int32, types.Int64:
		return true
	}
	return false
}

// kindOf returns the basic kind of a concrete scalar value (ok=false if not an integer/bool).
func kindOf(x value) (types.BasicKind, bool) {
	switch x := x.(type) {
	case bool:
		return types.Bool, true
	case int:
		return types.Int, true
	case int8:
		return types.Int8, true
	case int16:
		return types.Int16, true
	case int32:
		return types.Int32, true
	case int64:
		return types.Int64, true
	case uint:
		return types.Uint, true
	case uint8:
		return types.Uint8, true
	case uint16:
		return types.Uint16, true
	case uint32:
		return types.Uint32, true
	case uint64:
		return types.Uint64, true
	case uintptr:
		return types.Uintptr, true
	case symv:
		return x.k, true
	}
	return 0, false
}

// bitsOf returns the two's-complement bits of a concrete integer/bool.
func bitsOf(x value) uint64 {
	switch x := x.(type) {
	case bool:
		if x {
			return 1
		}
		return 0
	case int:
		return uint64(x)
	case int8:
		return uint64(x)
	case int16:
		return uint64(x)
	case int32:
		return uint64(x)
	case int64:
		return uint64(x)
	case uint:
		return uint64(x)
	case uint8:
		return uint64(x)
	case uint16:
		return uint64(x)
	case uint32:
		return uint64(x)
	case uint64:
		return x
	case uintptr:
		return uint64(x)
	}
	panic(fmt.Sprintf("bitsOf: %T", x))
}

// fromBits builds the concrete scalar of kind k from its bits.
func fromBits(k types.BasicKind, b uint64) value {
	switch k {
	case types.Bool:
		return b != 0
	case types.Int:
		return int(b)
	case types.Int8:
		return int8(b)
	case types.Int16:
		return int16(b)
	case types.Int32:
		return int32(b)
	case types.Int64:
		return int64(b)
	case types.Uint:
		return uint(b)
	case types.Uint8:
		return uint8(b)
	case types.Uint16:
		return uint16(b)
	case types.Uint32:
		return uint32(b)
	case types.Uint64:
		return b
	case types.Uintptr:
		return uintptr(b)
	}
	panic(fmt.Sprintf("fromBits: %v", k))
}

func isSym(x value) bool {
	_, ok := x.(symv)
	return ok
}

// termOf returns the SMT term of a scalar (concrete or symbolic).
func (m *Machine) termOf(x value) *smt.Term {
	if s, ok := x.(symv); ok {
		return s.t
	}
	k, ok := kindOf(x)
	if !ok {
		panic(engineFault{fmt.Sprintf("termOf: %T", x)})
	}
	if k == types.Bool {
		return m.ctx.Bool(x.(bool))
	}
	return m.ctx.BV(bitsOf(x), kindWidth(k))
}

// mkScalar returns a concrete value if t is constant, else a symv.
func mkScalar(t *smt.Term, k types.BasicKind) value {
	if t.IsConst() {
		return fromBits(k, t.Val)
	}
	return symv{t, k}
}

// ----------------------------------------------------------------------------
// strings

func strLen(x value) int {
	switch x := x.(type) {
	case string:
		return len(x)
	case sstr:
		return len(x.b)
	}
	panic(engineFault{fmt.Sprintf("strLen: %T", x)})
}

func strBytes(x value) []value {
	switch x := x.(type) {
	case string:
		out := make([]value, len(x))
		for i := 0; i < len(x); i++ {
			out[i] = x[i]
		}
		return out
	case sstr:
		return x.b
	}
	panic(engineFault{fmt.Sprintf("strBytes: %T", x)})
}

// mkString builds a string value from bytes (copying); concrete if all bytes are.
func mkString(b []value) value {
	conc := true
	for _, e := range b {
		if _, ok := e.(uint8); !ok {
			conc = false
			break
		}
	}
	if conc {
		bs := make([]byte, len(b))
		for i, e := range b {
			bs[i] = e.(uint8)
		}
		return string(bs)
	}
	cp := make([]value, len(b))
	copy(cp, b)
	return sstr{cp}
}

// ----------------------------------------------------------------------------
// maps: ordered association lists

type omap struct {
	keyT  types.Type
	keys  []value
	vals  []value
	alive []bool // tombstones keep iteration stable under delete during range
	n     int
	// sidx indexes the live entries by key while every key ever inserted was a
	// concrete Go string (the common case: node ids, paths); it turns the linear
	// scan of large concrete maps (65k-entry version vectors) into a lookup.
	// nil once a symbolic or non-string key has been inserted.
	sidx    map[string]int
	noIndex bool
}

func newOmap(keyT types.Type) *omap { return &omap{keyT: keyT} }

func (o *omap) len() int {
	if o == nil {
		return 0
	}
	return o.n
}

// find returns the index of key or -1. Equality may fork the path.
func (m *Machine) omapFind(o *omap, key value) int {
	if o == nil {
		return -1
	}
	if ks, ok := key.(string); ok && !o.noIndex && o.sidx != nil {
		if i, hit := o.sidx[ks]; hit && o.alive[i] {
			return i
		}
		return -1
	}
	for i := range o.keys {
		if !o.alive[i] {
			continue
		}
		if m.decide(m.equalsV(o.keyT, o.keys[i], key), "map-key-eq") {
			return i
		}
	}
	return -1
}

func (m *Machine) omapGet(o *omap, key value) (value, bool) {
	i := m.omapFind(o, key)
	if i < 0 {
		return nil, false
	}
	return o.vals[i], true
}

func (m *Machine) omapSet(o *omap, key, v value) {
	if o == nil {
		panic(targetPanic{m.runtimeErr("assignment to entry in nil map")})
	}
	i := m.omapFind(o, key)
	if i >= 0 {
		o.vals[i] = v
		return
	}
	o.keys = append(o.keys, key)
	o.vals = append(o.vals, v)
	o.alive = append(o.alive, true)
	o.n++
	if ks, ok := key.(string); ok && !o.noIndex {
		if o.sidx == nil {
			if len(o.keys) != 1 {
				o.noIndex = true // entries were added behind the index's back
				return
			}
			o.sidx = map[string]int{}
		}
		o.sidx[ks] = len(o.keys) - 1
	} else {
		o.noIndex, o.sidx = true, nil
	}
}

func (m *Machine) omapDelete(o *omap, key value) {
	i := m.omapFind(o, key)
	if i >= 0 {
		o.alive[i] = false
		o.n--
	}
}

func (o *omap) clone() *omap {
	if o == nil {
		return nil
	}
	c := &omap{keyT: o.keyT}
	for i := range o.keys {
		if o.alive[i] {
			c.keys = append(c.keys, o.keys[i])
			c.vals = append(c.vals, copyVal(o.vals[i]))
			c.alive = append(c.alive, true)
			c.n++
		}
	}
	c.reindex()
	return c
}

// reindex rebuilds the concrete-string index after keys were appended directly.
func (o *omap) reindex() {
	o.sidx, o.noIndex = nil, false
	idx := make(map[string]int, len(o.keys))
	for i, k := range o.keys {
		ks, ok := k.(string)
		if !ok {
			o.noIndex = true
			return
		}
		if o.alive[i] {
			idx[ks] = i
		}
	}
	if len(o.keys) > 0 {
		o.sidx = idx
	}
}

type omapIter struct {
	o     *omap
	order []int // indices in visiting order (snapshot at Range time)
	pos   int
}

func (it *omapIter) next(m *Machine) tuple {
	for it.pos < len(it.order) {
		i := it.order[it.pos]
		it.pos++
		if i < len(it.o.alive) && it.o.alive[i] {
			return tuple{true, it.o.keys[i], copyVal(it.o.vals[i])}
		}
	}
	return tuple{false, nil, nil}
}

type stringIter struct {
	b []value
	i int
}

func (it *stringIter) next(m *Machine) tuple {
	if it.i >= len(it.b) {
		return tuple{false, nil, nil}
	}
	// symbolic bytes reaching rune decoding (string validators, trimming, …)
	// are fixed to one representative value each; noted in the evidence
	for j := it.i; j < len(it.b) && j < it.i+4; j++ {
		if isSym(it.b[j]) {
			it.b[j] = m.representative(it.b[j], "string byte inspected rune-wise")
		}
	}
	c, ok := it.b[it.i].(uint8)
	if !ok {
		panic(unsupported{"range over string with symbolic bytes"})
	}
	if c < 0x80 {
		r := tuple{true, it.i, rune(c)}
		it.i++
		return r
	}
	// decode multi-byte rune from concrete bytes
	var bs []byte
	for j := it.i; j < len(it.b) && j < it.i+4; j++ {
		cb, ok := it.b[j].(uint8)
		if !ok {
			panic(unsupported{"range over string with symbolic bytes"})
		}
		bs = append(bs, cb)
	}
	rs := []rune(string(bs))
	r := rs[0]
	n := len(string(r))
	if r == 0xFFFD {
		n = 1
	}
	res := tuple{true, it.i, r}
	it.i += n
	return res
}

// ----------------------------------------------------------------------------
// copying, load/store

func copyVal(v value) value {
	switch v := v.(type) {
	case structure:
		a := make(structure, len(v))
		for i := range v {
			a[i] = copyVal(v[i])
		}
		return a
	case array:
		a := make(array, len(v))
		for i := range v {
			a[i] = copyVal(v[i])
		}
		return a
	}
	return v
}

func load(T types.Type, addr *value) value {
	return copyVal(*addr)
}

func store(T types.Type, addr *value, v value) {
	switch rhs := v.(type) {
	case structure:
		if lhs, ok := (*addr).(structure); ok && len(lhs) == len(rhs) {
			for i := range lhs {
				store(nil, &lhs[i], rhs[i])
			}
			return
		}
		*addr = copyVal(rhs)
	case array:
		if lhs, ok := (*addr).(array); ok && len(lhs) == len(rhs) {
			for i := range lhs {
				store(nil, &lhs[i], rhs[i])
			}
			return
		}
		*addr = copyVal(rhs)
	default:
		*addr = v
	}
}

// ----------------------------------------------------------------------------
// printing

func writeValue(buf *bytes.Buffer, v value, depth int) {
	if depth > 6 {
		buf.WriteString("…")
		return
	}
	switch v := v.(type) {
	case nil, bool, int, int8, int16, int32, int64, uint, uint8, uint16, uint32, uint64, uintptr, float32, float64, complex64, complex128:
		fmt.Fprintf(buf, "%v", v)
	case string:
		fmt.Fprintf(buf, "%q", v)
	case symv:
		fmt.Fprintf(buf, "<sym %s>", v.t.String())
	case sstr:
		fmt.Fprintf(buf, "<sstr len=%d>", len(v.b))
	case *omap:
		buf.WriteString("map[")
		if v != nil {
			sep := ""
			for i := range v.keys {
				if !v.alive[i] {
					continue
				}
				buf.WriteString(sep)
				sep = " "
				writeValue(buf, v.keys[i], depth+1)
				buf.WriteString(":")
				writeValue(buf, v.vals[i], depth+1)
			}
		}
		buf.WriteString("]")
	case *vchan:
		fmt.Fprintf(buf, "chan@%p", v)
	case *value:
		if v == nil {
			buf.WriteString("<nil>")
		} else {
			fmt.Fprintf(buf, "&")
			writeValue(buf, *v, depth+1)
		}
	case iface:
		if v.t == nil {
			buf.WriteString("nil")
		} else {
			fmt.Fprintf(buf, "(%s)", v.t)
			writeValue(buf, v.v, depth+1)
		}
	case structure:
		buf.WriteString("{")
		for i, e := range v {
			if i > 0 {
				buf.WriteString(" ")
			}
			writeValue(buf, e, depth+1)
		}
		buf.WriteString("}")
	case array:
		buf.WriteString("[")
		for i, e := range v {
			if i > 0 {
				buf.WriteString(" ")
			}
			writeValue(buf, e, depth+1)
		}
		buf.WriteString("]")
	case []value:
		buf.WriteString("[")
		for i, e := range v {
			if i > 0 {
				buf.WriteString(" ")
			}
			if i > 32 {
				buf.WriteString("…")
				break
			}
			writeValue(buf, e, depth+1)
		}
		buf.WriteString("]")
	case *ssa.Function:
		if v == nil {
			buf.WriteString("func(nil)")
		} else {
			buf.WriteString(v.String())
		}
	case *ssa.Builtin:
		buf.WriteString(v.Name())
	case *closure:
		buf.WriteString("closure:" + v.Fn.String())
	case rtype:
		buf.WriteString(v.t.String())
	case tuple:
		buf.WriteString("(")
		for i, e := range v {
			if i > 0 {
				buf.WriteString(", ")
			}
			writeValue(buf, e, depth+1)
		}
		buf.WriteString(")")
	default:
		fmt.Fprintf(buf, "<%T>", v)
	}
}

func toString(v value) string {
	var b bytes.Buffer
	writeValue(&b, v, 0)
	s := b.String()
	if len(s) > 300 {
		s = s[:300] + "…"
	}
	return s
}

var _ = strings.Builder{}
var _ = unsafe.Pointer(nil)
