//go:build verif

package actor

import (
	"github.com/kercylan98/vivid"
	"github.com/kercylan98/vivid/internal/mailbox"
)

// C02 — stash / unstash order, the kill flag, system-before-user on the real
// mailbox (sequentially).

// VH_C02_stash: stash of s messages, then up to three Unstash calls with an
// arbitrary int argument (or none): what is re-enqueued is the stash prefix in
// order, each message exactly once, the rest stays stashed.
func VH_C02_stash() {
	w := vhNewWorld()
	a := &vhActor{name: "a"}
	stashing := true
	a.onMsg = func(ctx vivid.ActorContext, m vivid.Message) {
		if _, ok := m.(*vhUserMsg); ok && stashing {
			ctx.Stash()
		}
	}
	c := w.spawn(w.root, "a", a)
	s := vrtChoose(vrtParam("maxstash", 4) + 1)
	viaScheduler := vrtBool() // the messages arrive as scheduled deliveries (SchedulerMessage unwrapped by the context)
	for i := 0; i < s; i++ {
		if viaScheduler {
			c.TellSelf(&SchedulerMessage{Reference: "r", Message: &vhUserMsg{N: i}})
		} else {
			c.TellSelf(&vhUserMsg{N: i})
		}
	}
	if viaScheduler && s >= 2 {
		vrtReach("stashed-scheduled-deliveries")
	}
	w.run(100, "setup")
	vrtAssert(c.StashCount() == s, "stash-count")
	stashing = false
	box := w.boxes[c]
	next := 0 // index of the next stashed message expected to come back
	for call := 0; call < 3; call++ {
		before := len(box.usr)
		expect := 0
		switch vrtChoose(2) {
		case 0:
			c.Unstash()
			if s-next > 0 {
				expect = 1
			}
			vrtReach("unstash-no-arg")
		case 1:
			n := vrtInt()
			c.Unstash(n)
			expect = n
			if expect > s-next {
				expect = s - next
			}
			if expect < 0 {
				expect = 0
			}
			if n < 0 {
				vrtReach("unstash-negative")
			}
			if n > s {
				vrtReach("unstash-more-than-stashed")
			}
		}
		got := len(box.usr) - before
		vrtAssert(got == expect, "unstash-count-is-clamped-n")
		for k := 0; k < got; k++ {
			m, ok := box.usr[before+k].Message().(*vhUserMsg)
			vrtAssert(ok && m.N == next+k, "unstash-prefix-in-order")
		}
		next += got
		vrtAssert(c.StashCount() == s-next, "rest-stays-stashed")
		for k := 0; k < c.StashCount(); k++ {
			m, ok := c.stash[k].Message().(*vhUserMsg)
			vrtAssert(ok && m.N == next+k, "rest-stays-stashed")
		}
	}
	// everything that came back is processed in stash order, each exactly once
	w.run(200, "drain")
	seenOrder := []int{}
	for _, m := range a.seen {
		if u, ok := m.(*vhUserMsg); ok {
			seenOrder = append(seenOrder, u.N)
		}
	}
	// the first s deliveries are the stashing pass; afterwards the unstashed prefix
	vrtAssert(len(seenOrder) == s+next, "each-unstashed-message-delivered-once")
	for k := 0; k < next; k++ {
		vrtAssert(seenOrder[s+k] == k, "unstashed-delivered-in-stash-order")
	}
}

// VH_C02_kill_flag: Kill(ref, poison) — an immediate kill is a system envelope
// (overtakes queued user mail), a poison kill is a user envelope (queued
// behind it); both carry the flag.
func VH_C02_kill_flag() {
	w := vhNewWorld()
	c := w.spawn(w.root, "a", &vhActor{name: "a"})
	poison := vrtBool()
	c.TellSelf(&vhUserMsg{N: 1})
	w.root.Kill(c.ref, poison, "r")
	box := w.boxes[c]
	e := box.all[len(box.all)-1]
	k, ok := e.Message().(*vivid.OnKill)
	vrtAssert(ok && k.Poison == poison, "kill-carries-poison-flag")
	vrtAssert(e.System() == !poison, "immediate-kill-is-system-poison-kill-is-user")
	first := box.next()
	if poison {
		_, isUser := first.Message().(*vhUserMsg)
		vrtAssert(isUser, "poison-kill-queued-behind-user-mail")
		vrtReach("poison")
	} else {
		_, isKill := first.Message().(*vivid.OnKill)
		vrtAssert(isKill, "immediate-kill-overtakes-user-mail")
		vrtReach("immediate")
	}
}

type vhSeqHandler struct {
	mb    vivid.Mailbox
	order []int
	extra vivid.Envelop
}

func (h *vhSeqHandler) HandleEnvelop(e vivid.Envelop) {
	h.order = append(h.order, e.Message().(int))
	if h.extra != nil && e.Message().(int) == 100 {
		// the first user message makes the handler send a system message to itself
		x := h.extra
		h.extra = nil
		h.mb.Enqueue(x)
	}
}

// VH_C02_priority_seq: k system and u user envelopes pre-filled in arbitrary
// arrival order into the REAL UnboundedMailbox; the (single) consumer sees all
// pending system messages before the next user message, FIFO within each kind,
// including a system message produced while user messages are pending.
func VH_C02_priority_seq() {
	h := &vhSeqHandler{}
	mb := mailbox.NewUnboundedMailbox(int64(1+vrtChoose(3)), h)
	h.mb = mb
	h.extra = mailbox.NewEnvelop(true, nil, nil, 50)
	mb.Pause() // keep the consumer from draining while the burst arrives
	n := 2 + vrtChoose(vrtParam("maxmsgs", 4)-1)
	var sys, usr []int
	for i := 0; i < n; i++ {
		if vrtBool() {
			id := 1 + len(sys)
			sys = append(sys, id)
			mb.Enqueue(mailbox.NewEnvelop(true, nil, nil, id))
		} else {
			id := 100 + len(usr)
			usr = append(usr, id)
			mb.Enqueue(mailbox.NewEnvelop(false, nil, nil, id))
		}
		vrtYield()
	}
	vrtYield()
	// paused: system messages were processed, user messages wait
	vrtAssert(len(h.order) == len(sys), "paused-processes-system-only")
	mb.Resume()
	vrtYield()
	want := append([]int{}, sys...)
	if len(usr) > 0 {
		want = append(want, usr[0], 50)
		want = append(want, usr[1:]...)
		vrtReach("system-sent-while-user-pending")
	}
	vrtAssert(len(h.order) == len(want), "every-message-handled-once")
	for i := range want {
		if i < len(h.order) {
			vrtAssert(h.order[i] == want[i], "system-first-fifo-within-kind")
		}
	}
}

type vhBusyHandler struct {
	mb               vivid.Mailbox
	order            []int
	blocked, release bool
}

func (h *vhBusyHandler) HandleEnvelop(e vivid.Envelop) {
	id := e.Message().(int)
	if id == 0 {
		// the actor is busy with this message while the burst piles up behind it
		h.blocked = true
		for i := 0; i < 64 && !h.release; i++ {
			vrtYieldOnce()
		}
		return
	}
	h.order = append(h.order, id)
}

// VH_C02_priority_busy: while the (single) consumer of the REAL UnboundedMailbox
// is busy inside a handler, k system and u user envelopes arrive in an
// arbitrary order; once the handler returns, every pending system message is
// handled before any pending user message, FIFO within each kind.
func VH_C02_priority_busy() {
	h := &vhBusyHandler{}
	mb := mailbox.NewUnboundedMailbox(int64(1+vrtChoose(3)), h)
	h.mb = mb
	mb.Enqueue(mailbox.NewEnvelop(false, nil, nil, 0))
	for i := 0; i < 8 && !h.blocked; i++ {
		vrtYieldOnce()
	}
	vrtAssert(h.blocked, "setup")
	n := 2 + vrtChoose(vrtParam("maxmsgs", 4)-1)
	var sys, usr []int
	for i := 0; i < n; i++ {
		if vrtBool() {
			id := 1 + len(sys)
			sys = append(sys, id)
			mb.Enqueue(mailbox.NewEnvelop(true, nil, nil, id))
		} else {
			id := 100 + len(usr)
			usr = append(usr, id)
			mb.Enqueue(mailbox.NewEnvelop(false, nil, nil, id))
		}
	}
	vrtAssert(len(h.order) == 0, "one-message-at-a-time")
	h.release = true
	for i := 0; i < 8; i++ {
		vrtYield()
	}
	want := append(append([]int{}, sys...), usr...)
	vrtAssert(len(h.order) == len(want), "every-message-handled-once")
	for i := range want {
		if i < len(h.order) {
			vrtAssert(h.order[i] == want[i], "pending-system-messages-before-pending-user-messages")
		}
	}
	if len(sys) >= 2 && len(usr) >= 1 {
		vrtReach("two-system-one-user-pending")
	}
}

// VH_C02_stash_large: the same law as VH_C02_stash with stash sizes a real
// actor may reach (up to 130), Unstash(n) with n symbolic in every region
// (negative, zero, inside, at the size, beyond).
func VH_C02_stash_large() {
	w := vhNewWorld()
	a := &vhActor{name: "a"}
	stashing := true
	a.onMsg = func(ctx vivid.ActorContext, m vivid.Message) {
		if _, ok := m.(*vhUserMsg); ok && stashing {
			ctx.Stash()
		}
	}
	c := w.spawn(w.root, "a", a)
	s := []int{17, 64, 65, 130}[vrtChoose(4)]
	for i := 0; i < s; i++ {
		c.TellSelf(&vhUserMsg{N: i})
	}
	w.run(400, "setup")
	vrtAssert(c.StashCount() == s, "stash-count")
	stashing = false
	box := w.boxes[c]
	next := 0
	for call := 0; call < 3; call++ {
		before := len(box.usr)
		region := vrtChoose(6)
		n := []int{-3, 0, 1, s / 2, s - next, s + 7}[region]
		c.Unstash(n)
		expect := n
		if expect > s-next {
			expect = s - next
		}
		if expect < 0 {
			expect = 0
		}
		got := len(box.usr) - before
		vrtAssert(got == expect, "unstash-count-is-clamped-n")
		for k := 0; k < got; k++ {
			m, ok := box.usr[before+k].Message().(*vhUserMsg)
			vrtAssert(ok && m.N == next+k, "unstash-prefix-in-order")
		}
		next += got
		vrtAssert(c.StashCount() == s-next, "rest-kept")
	}
	c.Unstash(s + 1)
	vrtAssert(c.StashCount() == 0 && len(box.usr) == s, "exactly-once")
	for k := 0; k < s; k++ {
		m, ok := box.usr[k].Message().(*vhUserMsg)
		vrtAssert(ok && m.N == k, "unstash-prefix-in-order")
	}
	vrtReach("large-stash")
}
