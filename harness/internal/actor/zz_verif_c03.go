//go:build verif

package actor

import (
	"github.com/kercylan98/vivid"
	"github.com/kercylan98/vivid/pkg/ves"
)

// C03 — no user message is silently lost (transition-level lemma): one send,
// reference provenance x target state; exactly one fate.

var vhProvenances = []string{"spawn-ref-warm-cache", "spawn-ref-cold-cache", "clone", "parsed"}
var vhTargetStates = []string{"running", "killed-deregistered", "never-existed", "path-reused", "zombie", "stopped-while-paused", "stashing"}

type vhProbe struct{ N int }

// vhFates counts where the probe ended up.
func vhFates(w *vhWorld, actors []*vhActor, stashes []*Context) (processed, stashed, dead int) {
	isProbe := func(m vivid.Message) bool { p, ok := m.(*vhProbe); return ok && p.N == 42 }
	for _, a := range actors {
		for _, m := range a.seen {
			if isProbe(m) {
				processed++
			}
		}
	}
	for _, c := range stashes {
		for _, e := range c.stash {
			if isProbe(e.Message()) {
				stashed++
			}
		}
	}
	for _, d := range vhPublishedDeadLetters {
		if isProbe(d.Envelope.Message()) {
			dead++
		}
	}
	return
}

var vhPublishedDeadLetters []ves.DeathLetterEvent

// VH_C03_send_fate: one Tell of a probe message; param "prov" x "state".
func VH_C03_send_fate() {
	vhLog = nil
	vhPublishedDeadLetters = nil
	w := vhNewWorld()
	// a dead-letter subscriber that records published dead letters
	rec := &vhActor{name: "dl"}
	rec.onMsg = func(ctx vivid.ActorContext, m vivid.Message) {
		if d, ok := m.(ves.DeathLetterEvent); ok {
			vhPublishedDeadLetters = append(vhPublishedDeadLetters, d)
		}
	}
	recCtx := w.spawn(w.root, "dl", rec)
	w.sys.eventStream.Subscribe(recCtx, ves.DeathLetterEvent{})
	sender := w.spawn(w.root, "sender", vhLogged("sender"))

	prov := vhProvenances[vrtParam("prov", 0)]
	state := vhTargetStates[vrtParam("state", 0)]
	ta := vhLogged("t")
	var t *Context
	var second *vhActor
	if state != "never-existed" {
		t = w.spawn(w.root, "t", ta)
	}
	var orig vivid.ActorRef
	if t != nil {
		orig = t.ref
		if prov == "spawn-ref-warm-cache" {
			w.sys.findMailbox(t.ref) // warms the per-reference mailbox cache, like any earlier Tell would
		}
	}
	if t != nil && vrtChoose(2) == 1 {
		// an attempt to spawn a second actor under the target's name is rejected
		// and changes nothing: the path still designates the running target
		_, err := w.root.ActorOf(&vhActor{name: "impostor"}, vivid.WithActorName("t"))
		vrtAssert(err != nil, "duplicate-name-spawn-is-rejected")
		reg, ok := w.sys.actorContexts.Load(t.ref.GetPath())
		vrtAssert(ok && reg == any(t), "rejected-spawn-leaves-the-registry-entry-of-the-running-actor")
		vrtReach("rejected-duplicate-spawn")
	}
	actors := []*vhActor{ta}
	stashers := []*Context{}
	switch state {
	case "killed-deregistered":
		w.root.Kill(t.ref, false, "x")
		w.run(200, "terminates")
		vrtAssert(t.state == killed, "setup")
	case "path-reused":
		w.root.Kill(t.ref, false, "x")
		w.run(200, "terminates")
		second = vhLogged("t2")
		w.spawn(w.root, "t", second)
		actors = append(actors, second)
	case "zombie":
		t.zombie = true
	case "stopped-while-paused":
		// the supervisor stops a failed (paused) actor non-gracefully while user
		// mail (incl. the probe) is parked behind the failing message
		t.mailbox.Pause()
	case "stashing":
		ta.onMsg = func(ctx vivid.ActorContext, m vivid.Message) {
			if _, ok := m.(*vhProbe); ok {
				ctx.Stash()
			}
		}
		stashers = append(stashers, t)
	}
	var target vivid.ActorRef
	switch prov {
	case "spawn-ref-warm-cache", "spawn-ref-cold-cache":
		if orig == nil {
			r, err := NewRef(LocalAddress, "/t")
			vrtAssert(err == nil, "setup")
			target = r
		} else {
			target = orig
		}
	case "clone":
		if orig == nil {
			r, _ := NewRef(LocalAddress, "/t")
			target = r.Clone()
		} else {
			target = orig.Clone()
		}
	case "parsed":
		r, err := ParseRef("localhost/t")
		vrtAssert(err == nil, "setup")
		target = r
	}
	sender.Tell(target, &vhProbe{N: 42})
	if state == "stopped-while-paused" {
		w.root.Kill(t.ref, false, "supervisor stop")
	}
	w.run(300, "delivery-terminates")

	processed, stashed, dead := vhFates(w, actors, stashers)
	if state == "stashing" {
		processed = 0 // the behaviour ran in order to stash it; its fate is the stash
	}
	if state == "zombie" {
		vrtAssert(processed == 0 && stashed == 0, "zombie-runs-no-user-code")
		vrtAssert(len(w.boxes[t].usr) == 0, "zombie-consumes-its-mail")
		vrtReach("zombie")
		return
	}
	vrtAssert(processed+stashed+dead >= 1, "message-not-silently-lost")
	vrtAssert(processed+stashed+dead <= 1, "message-has-exactly-one-fate")
	switch state {
	case "running":
		vrtAssert(processed == 1, "running-target-processes")
	case "stashing":
		vrtAssert(stashed == 1, "stashed")
	case "path-reused":
		if processed == 1 {
			vrtAssert(vhSeenProbe(second), "new-incarnation-not-old")
		}
	}
	vrtReach("fate-decided")
}

func vhSeenProbe(a *vhActor) bool {
	for _, m := range a.seen {
		if p, ok := m.(*vhProbe); ok && p.N == 42 {
			return true
		}
	}
	return false
}

// VH_C03_after_system_stop: once the root is terminated, undeliverable
// messages are dropped without causing unbounded further work.
func VH_C03_after_system_stop() {
	w := vhNewWorld()
	t := w.spawn(w.root, "t", vhLogged("t"))
	w.root.Kill(w.root.ref, true, "system stop")
	w.run(400, "stop-terminates")
	vrtAssert(w.root.state == killed && t.state == killed, "system-stopped")
	t.TellSelf(&vhProbe{N: 42})
	n := w.run(50, "stopped-system-bounded-work")
	vrtAssert(n <= 10, "stopped-system-bounded-work")
	vrtReach("dropped")
}
