//go:build verif

package actor

import (
	"errors"
	"time"

	"github.com/kercylan98/vivid"
	"github.com/kercylan98/vivid/internal/future"
)

// C04 — registration lemmas of Ask on the real Context.ask / System.appendFuture
// / removeFuture / removeFuturesByAgentPath / findMailbox / doKill (the future
// object itself under concurrency is the Engine-B scenario in internal/future).

func vhFutureEntries(w *vhWorld) int {
	n := 0
	w.sys.actorContexts.Range(func(k, v any) bool {
		if _, ok := v.(*future.Future[vivid.Message]); ok {
			n++
		}
		return true
	})
	return n
}

// VH_C04_registration: 1..3 outstanding Asks from one asker, completed in a
// symbolic order by reply / explicit close / asker death.
func VH_C04_registration() {
	w := vhNewWorld()
	ta := vhLogged("t")
	var replyTo []vivid.ActorRef
	ta.onMsg = func(ctx vivid.ActorContext, m vivid.Message) {
		if _, ok := m.(*vhUserMsg); ok {
			replyTo = append(replyTo, ctx.Sender())
		}
	}
	t := w.spawn(w.root, "t", ta)
	asker := w.spawn(w.root, "asker", vhLogged("asker"))
	k := 1 + vrtChoose(3)
	var futs []vivid.Future[vivid.Message]
	for i := 0; i < k; i++ {
		futs = append(futs, asker.Ask(t.ref, &vhUserMsg{N: i}, time.Hour))
	}
	w.run(100, "asks-delivered")
	vrtAssert(len(replyTo) == k, "each-ask-delivered-once")
	vrtAssert(vhFutureEntries(w) == k && len(w.sys.futureAgents[asker.ref.GetPath()]) == k, "each-ask-registered-once")
	// reply addresses are pairwise distinct children of the asker
	for i := 0; i < k; i++ {
		for j := i + 1; j < k; j++ {
			vrtAssert(!replyTo[i].Equals(replyTo[j]), "reply-addresses-distinct")
		}
	}
	mode := vrtChoose(4)
	done := make([]bool, k)
	switch mode {
	case 3: // the asker dies, its name is reused, and late replies to the old requests arrive
		w.root.Kill(asker.ref, false, "x")
		w.run(200, "asker-dies")
		for i := 0; i < k; i++ {
			done[i] = true
		}
		asker2 := w.spawn(w.root, "asker", vhLogged("asker2"))
		old := append([]vivid.ActorRef{}, replyTo...)
		var futs2 []*future.Future[vivid.Message]
		for i := 0; i < k; i++ {
			futs2 = append(futs2, asker2.Ask(t.ref, &vhUserMsg{N: 50 + i}, time.Hour).(*future.Future[vivid.Message]))
		}
		w.run(100, "asks-delivered")
		vrtAssert(len(replyTo) == 2*k, "each-ask-delivered-once")
		for i := 0; i < k; i++ {
			for j := 0; j < k; j++ {
				vrtAssert(!old[i].Equals(replyTo[k+j]), "reply-address-never-reused-by-a-later-request")
			}
			t.Tell(old[i], &vhUserMsg{N: 900 + i}) // late reply to a request whose asker is gone
		}
		w.run(100, "late-replies")
		for i := 0; i < k; i++ {
			vrtAssert(!future.VrtIsClosed(futs2[i]), "late-reply-never-completes-another-request")
		}
		for i := 0; i < k; i++ {
			t.Tell(replyTo[k+i], &vhUserMsg{N: 200 + i})
			w.run(50, "reply")
			m, err := futs2[i].Result()
			u, ok := m.(*vhUserMsg)
			vrtAssert(err == nil && ok && u.N == 200+i, "reply-reaches-own-future")
		}
		vrtReach("name-reused")
	case 0: // replies in a symbolic order; every reply reaches its own future only
		for n := 0; n < k; n++ {
			i := vrtChoose(k)
			if done[i] {
				continue
			}
			done[i] = true
			t.Tell(replyTo[i], &vhUserMsg{N: 100 + i})
			w.run(50, "reply")
			m, err := futs[i].Result()
			u, ok := m.(*vhUserMsg)
			vrtAssert(err == nil && ok && u.N == 100+i, "reply-reaches-own-future")
			left := 0
			for j := range done {
				if !done[j] {
					left++
				}
			}
			vrtAssert(vhFutureEntries(w) == left, "no-registration-after-completion")
		}
		vrtReach("replied")
	case 1: // the asker dies: every outstanding future fails with actor-dead
		w.root.Kill(asker.ref, false, "x")
		w.run(200, "asker-dies")
		for i := 0; i < k; i++ {
			_, err := futs[i].Result()
			vrtAssert(errors.Is(err, vivid.ErrorActorDeaded), "asker-death-closes-all-with-actor-dead")
			done[i] = true
		}
		vrtReach("asker-died")
	case 2: // a late reply after the timeout closed the future is not delivered to another future
		fi := futs[0].(*future.Future[vivid.Message])
		fi.Close(vivid.ErrorFutureTimeout)
		done[0] = true
		_, err := futs[0].Result()
		vrtAssert(errors.Is(err, vivid.ErrorFutureTimeout), "timeout-completes-with-timeout-error")
		t.Tell(replyTo[0], &vhUserMsg{N: 100})
		w.run(50, "late-reply")
		for i := 1; i < k; i++ {
			fj := futs[i].(*future.Future[vivid.Message])
			_ = fj
		}
		vrtAssert(vhFutureEntries(w) == k-1, "no-registration-after-completion")
		vrtReach("late-reply")
	}
	for i := range done {
		if !done[i] {
			return
		}
	}
	vrtAssert(vhFutureEntries(w) == 0, "no-registration-after-completion")
	_, has := w.sys.futureAgents[asker.ref.GetPath()]
	vrtAssert(!has, "per-asker-table-removed-when-empty")
}

// VH_C04_timeout: an Ask with an arbitrary timeout value T (any int64 in a
// range around zero) that is never answered: against the virtual clock the
// future is still pending strictly before T and completes with the timeout
// error once T has elapsed; a non-positive per-call timeout must not turn
// the Ask into one that can never complete (Result/Wait never block beyond
// reply, timeout or death).
func VH_C04_timeout() {
	w := vhNewWorld()
	t := w.spawn(w.root, "t", vhLogged("t")) // never replies
	asker := w.spawn(w.root, "asker", vhLogged("asker"))
	const ms = int64(time.Millisecond)
	T := vrtInt64()
	vrtAssume(T >= -50*ms && T <= 200*ms)
	def := asker.options.DefaultAskTimeout
	vrtAssert(def > 0, "default-ask-timeout-is-positive")
	fut := asker.Ask(t.ref, &vhUserMsg{N: 1}, time.Duration(T)).(*future.Future[vivid.Message])
	w.run(50, "ask-delivered")
	isDone := func() bool { return future.VrtIsClosed(fut) }
	eff := T // the timeout in effect
	if T <= 0 {
		eff = int64(def)
		vrtReach("non-positive-timeout")
	} else {
		vrtReach("positive-timeout")
	}
	if eff > 1 {
		// strictly before the timeout nothing has happened
		d := vrtInt64()
		vrtAssume(d >= 0 && d < eff)
		vrtAdvance(time.Duration(d))
		vrtYield()
		vrtAssert(!isDone(), "no-timeout-before-its-time")
		vrtAdvance(time.Duration(eff - d))
	} else {
		vrtAdvance(time.Duration(eff))
	}
	vrtYield()
	vrtAssert(isDone(), "unanswered-ask-completes-at-its-timeout")
	if isDone() {
		_, err := fut.Result()
		vrtAssert(errors.Is(err, vivid.ErrorFutureTimeout), "timeout-completes-with-timeout-error")
	}
	vrtAssert(vhFutureEntries(w) == 0, "no-registration-after-completion")
}
