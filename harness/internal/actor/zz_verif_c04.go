//go:build verif

package actor

import (
	"errors"
	"time"

	"github.com/kercylan98/vivid"
	"github.com/kercylan98/vivid/internal/future"
)

// C04 — registration lemmas of Ask on the real Context.ask / System.appendFuture
// / removeFuture / removeFuturesByAgentPath / findMailbox / doKill (the future
// object itself under concurrency is the Engine-B scenario in internal/future).

func vhFutureEntries(w *vhWorld) int {
	n := 0
	w.sys.actorContexts.Range(func(k, v any) bool {
		if _, ok := v.(*future.Future[vivid.Message]); ok {
			n++
		}
		return true
	})
	return n
}

// VH_C04_registration: 1..3 outstanding Asks from one asker, completed in a
// symbolic order by reply / explicit close / asker death.
func VH_C04_registration() {
	w := vhNewWorld()
	ta := vhLogged("t")
	var replyTo []vivid.ActorRef
	ta.onMsg = func(ctx vivid.ActorContext, m vivid.Message) {
		if _, ok := m.(*vhUserMsg); ok {
			replyTo = append(replyTo, ctx.Sender())
		}
	}
	t := w.spawn(w.root, "t", ta)
	asker := w.spawn(w.root, "asker", vhLogged("asker"))
	k := 1 + vrtChoose(3)
	var futs []vivid.Future[vivid.Message]
	for i := 0; i < k; i++ {
		futs = append(futs, asker.Ask(t.ref, &vhUserMsg{N: i}, time.Hour))
	}
	w.run(100, "asks-delivered")
	vrtAssert(len(replyTo) == k, "each-ask-delivered-once")
	vrtAssert(vhFutureEntries(w) == k && len(w.sys.futureAgents[asker.ref.GetPath()]) == k, "each-ask-registered-once")
	// reply addresses are pairwise distinct children of the asker
	for i := 0; i < k; i++ {
		for j := i + 1; j < k; j++ {
			vrtAssert(!replyTo[i].Equals(replyTo[j]), "reply-addresses-distinct")
		}
	}
	mode := vrtChoose(3)
	done := make([]bool, k)
	switch mode {
	case 0: // replies in a symbolic order; every reply reaches its own future only
		for n := 0; n < k; n++ {
			i := vrtChoose(k)
			if done[i] {
				continue
			}
			done[i] = true
			t.Tell(replyTo[i], &vhUserMsg{N: 100 + i})
			w.run(50, "reply")
			m, err := futs[i].Result()
			u, ok := m.(*vhUserMsg)
			vrtAssert(err == nil && ok && u.N == 100+i, "reply-reaches-own-future")
			left := 0
			for j := range done {
				if !done[j] {
					left++
				}
			}
			vrtAssert(vhFutureEntries(w) == left, "no-registration-after-completion")
		}
		vrtReach("replied")
	case 1: // the asker dies: every outstanding future fails with actor-dead
		w.root.Kill(asker.ref, false, "x")
		w.run(200, "asker-dies")
		for i := 0; i < k; i++ {
			_, err := futs[i].Result()
			vrtAssert(errors.Is(err, vivid.ErrorActorDeaded), "asker-death-closes-all-with-actor-dead")
			done[i] = true
		}
		vrtReach("asker-died")
	case 2: // a late reply after the timeout closed the future is not delivered to another future
		fi := futs[0].(*future.Future[vivid.Message])
		fi.Close(vivid.ErrorFutureTimeout)
		done[0] = true
		_, err := futs[0].Result()
		vrtAssert(errors.Is(err, vivid.ErrorFutureTimeout), "timeout-completes-with-timeout-error")
		t.Tell(replyTo[0], &vhUserMsg{N: 100})
		w.run(50, "late-reply")
		for i := 1; i < k; i++ {
			fj := futs[i].(*future.Future[vivid.Message])
			_ = fj
		}
		vrtAssert(vhFutureEntries(w) == k-1, "no-registration-after-completion")
		vrtReach("late-reply")
	}
	for i := range done {
		if !done[i] {
			return
		}
	}
	vrtAssert(vhFutureEntries(w) == 0, "no-registration-after-completion")
	_, has := w.sys.futureAgents[asker.ref.GetPath()]
	vrtAssert(!has, "per-asker-table-removed-when-empty")
}
