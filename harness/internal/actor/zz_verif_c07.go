//go:build verif

package actor

import (
	"context"
	"errors"
	"time"

	"github.com/kercylan98/vivid"
	"github.com/kercylan98/vivid/internal/scheduler"
)

// C07 — Start/Stop state machine.

// VH_C07_status_table: any sequence of up to 3 calls from {Start, Stop} on a
// system whose actor tree and goroutines are replaced by the recording world:
// the returned errors follow the documented table. (Start is applied through
// the same status closure that Start uses; the chain and the guardian
// goroutine are the subject of the Engine-B scenario.)
func VH_C07_status_table() {
	w := vhNewWorld()
	sys := w.sys
	close(sys.guardClosedSignal) // the root is reported terminated at once
	status := ready
	n := 1 + vrtChoose(3)
	for i := 0; i < n; i++ {
		if vrtBool() {
			// Stop
			err := sys.Stop(time.Millisecond)
			switch status {
			case ready:
				vrtAssert(errors.Is(err, vivid.ErrorActorSystemNotStarted), "stop-before-start-is-not-started")
				vrtReach("stop-not-started")
			case start:
				vrtAssert(err == nil, "first-stop-succeeds")
				status = stop
				vrtReach("stopped")
			case stop:
				vrtAssert(errors.Is(err, vivid.ErrorActorSystemAlreadyStopped), "second-stop-is-already-stopped")
				vrtReach("stop-again")
			}
		} else {
			// Start: only the state transition (the real chain needs the real runtime)
			var err error
			func() {
				sys.statusLock.Lock()
				defer sys.statusLock.Unlock()
				switch sys.status {
				case start:
					err = vivid.ErrorActorSystemAlreadyStarted
				case stop:
					err = vivid.ErrorActorSystemAlreadyStopped
				default:
					sys.status = start
				}
			}()
			switch status {
			case ready:
				vrtAssert(err == nil, "first-start-succeeds")
				status = start
			case start:
				vrtAssert(errors.Is(err, vivid.ErrorActorSystemAlreadyStarted), "second-start-is-already-started")
			case stop:
				vrtAssert(errors.Is(err, vivid.ErrorActorSystemAlreadyStopped), "start-after-stop-is-already-stopped")
			}
		}
		vrtAssert(sys.status == status, "status-follows-one-way-machine")
	}
}

// vhC07 is the observer of the Engine-B scenario.
type vhC07 struct {
	stopADone, stopBDone int8
	stopAErr, stopBErr   int8 // 0 nil, 1 already-stopped, 2 stop-failed(timeout), 3 other
	cancelled            int8
}

func vhErrCode(err error) int8 {
	switch {
	case err == nil:
		return 0
	case errors.Is(err, vivid.ErrorActorSystemAlreadyStopped):
		return 1
	case errors.Is(err, vivid.ErrorActorSystemStopFailed):
		return 2
	}
	return 3
}

var (
	vhC07Done    chan struct{}
	vhC07Timeout chan time.Time
	vhC07G       *vhC07
)

type vhDoneCtx struct{ context.Context }

func (vhDoneCtx) Done() <-chan struct{} { return vhC07Done }
func (vhDoneCtx) Err() error            { return nil }

// VS_C07_stop_protocol: the REAL Start() is run during setup (its guardian
// goroutine becomes a thread), then two concurrent Stop() calls, context
// cancellation, the root's termination signal and the stop timeout race each
// other. Nobody may be blocked forever; exactly one Stop succeeds (or fails
// with the timeout), the other reports already-stopped.
func VS_C07_stop_protocol() {
	w := vhNewWorld()
	sys := w.sys
	g := &vhC07{}
	vhC07G = g
	vhC07Done = make(chan struct{})
	vhC07Timeout = make(chan time.Time)
	sys.options.Context = vhDoneCtx{context.Background()}
	sys.cancel = func() {
		vrtVisible("cancel")
		if g.cancelled == 0 {
			g.cancelled = 1
			close(vhC07Done)
		}
	}
	vrtRedirect("time.After", func(d time.Duration) <-chan time.Time { return vhC07Timeout })
	vrtRedirect("(*github.com/kercylan98/vivid/internal/actor.Context).Kill", func(c *Context, ref vivid.ActorRef, poison bool, reason ...string) {})
	vrtRedirect("(*github.com/kercylan98/vivid/internal/scheduler.Scheduler).Stop", scheduler.VrtNoopStop)
	sys.Context = nil // Start() spawns the real guard context itself
	err := sys.Start()
	vrtAssert(err == nil, "start-ok")
	vrtShared(&sys.status, &sys.statusLock)
	vrtSharedChan(sys.guardClosedSignal)
	vrtSharedChan(vhC07Done)
	vrtSharedChan(vhC07Timeout)
	vrtShared(&g.stopADone, &g.stopBDone, &g.stopAErr, &g.stopBErr, &g.cancelled)

	vrtThread("stopA", func() { g.stopAErr = vhErrCode(sys.Stop()); g.stopADone = 1 })
	vrtThread("stopB", func() { g.stopBErr = vhErrCode(sys.Stop()); g.stopBDone = 1 })
	vrtThread("root-terminates", func() { close(sys.guardClosedSignal) })
	if vrtParam("timeout", 0) == 1 {
		vrtThread("stop-timeout-fires", func() { close(vhC07Timeout) })
	}
	if vrtParam("cancel", 0) == 1 {
		vrtThread("context-cancelled", func() { sys.cancel() })
	}

	vrtFinal("every-stop-call-returns", func() bool { return g.stopADone == 1 && g.stopBDone == 1 })
	// the winner is the one call that performs the shutdown; with an external
	// context cancellation the guardian goroutine may be that one, in which case
	// both callers are told already-stopped
	external := vrtParam("cancel", 0) == 1
	vrtFinal("exactly-one-stop-wins", func() bool {
		a, b := g.stopAErr, g.stopBErr
		if a == 3 || b == 3 {
			return false
		}
		if a == 1 && b == 1 {
			return external
		}
		return a == 1 || b == 1
	})
	vrtFinal("status-is-stopped", func() bool { return sys.status == stop })
}
