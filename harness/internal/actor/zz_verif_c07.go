//go:build verif

package actor

import (
	"context"
	"errors"
	"time"

	"github.com/kercylan98/vivid"
	"github.com/kercylan98/vivid/internal/chain"
	"github.com/kercylan98/vivid/internal/scheduler"
)

// C07 — Start/Stop state machine.

// VH_C07_status_table: any sequence of up to 3 calls from {Start, Stop} on a
// system whose actor tree and goroutines are replaced by the recording world:
// the returned errors follow the documented table. (Start is applied through
// the same status closure that Start uses; the chain and the guardian
// goroutine are the subject of the Engine-B scenario.)
func VH_C07_status_table() {
	w := vhNewWorld()
	sys := w.sys
	close(sys.guardClosedSignal) // the root is reported terminated at once
	sys.Context = nil            // Start() spawns the real guard context itself
	sys.options.Context = context.Background()
	sys.cancel = func() {}
	status := ready
	n := 1 + vrtChoose(int(vrtParam("calls", 3)))
	for i := 0; i < n; i++ {
		if vrtBool() {
			// Stop
			err := sys.Stop(time.Millisecond)
			switch status {
			case ready:
				vrtAssert(errors.Is(err, vivid.ErrorActorSystemNotStarted), "stop-before-start-is-not-started")
				vrtReach("stop-not-started")
			case start:
				vrtAssert(err == nil, "first-stop-succeeds")
				status = stop
				vrtReach("stopped")
			case stop:
				vrtAssert(errors.Is(err, vivid.ErrorActorSystemAlreadyStopped), "second-stop-is-already-stopped")
				vrtReach("stop-again")
			}
		} else {
			// the REAL Start(): status closure, start chain (spawns the real guard
			// context into the recording world), guardian goroutine (parked on the
			// never-cancelled context)
			err := sys.Start()
			switch status {
			case ready:
				vrtAssert(err == nil, "first-start-succeeds")
				status = start
			case start:
				vrtAssert(errors.Is(err, vivid.ErrorActorSystemAlreadyStarted), "second-start-is-already-started")
				vrtReach("start-again")
			case stop:
				vrtAssert(errors.Is(err, vivid.ErrorActorSystemAlreadyStopped), "start-after-stop-is-already-stopped")
				vrtReach("start-after-stop")
			}
		}
		vrtAssert(sys.status == status, "status-follows-one-way-machine")
	}
}

// vhC07 is the observer of the Engine-B scenario.
type vhC07 struct {
	stopADone, stopBDone int8
	stopAErr, stopBErr   int8 // 0 nil, 1 already-stopped, 2 stop-failed(timeout), 3 other
	cancelled            int8
	startDone, startErr  int8 // concurrent Start(): 0 nil, 4 already-started, 1 already-stopped, 3 other
	chainRuns            int8 // how often a start chain ran after the initial Start
	rootKills            int8 // Kill(root) issued by stop
	schedStops           int8
}

func vhErrCode(err error) int8 {
	switch {
	case err == nil:
		return 0
	case errors.Is(err, vivid.ErrorActorSystemAlreadyStopped):
		return 1
	case errors.Is(err, vivid.ErrorActorSystemStopFailed):
		return 2
	case errors.Is(err, vivid.ErrorActorSystemAlreadyStarted):
		return 4
	}
	return 3
}

var (
	vhC07Done    chan struct{}
	vhC07Timeout chan time.Time
	vhC07G       *vhC07
)

type vhDoneCtx struct{ context.Context }

func (vhDoneCtx) Done() <-chan struct{} { return vhC07Done }
func (vhDoneCtx) Err() error            { return nil }

// VS_C07_stop_protocol: the REAL Start() is run during setup (its guardian
// goroutine becomes a thread), then two concurrent Stop() calls, context
// cancellation, the root's termination signal and the stop timeout race each
// other. Nobody may be blocked forever; exactly one Stop succeeds (or fails
// with the timeout), the other reports already-stopped.
func VS_C07_stop_protocol() {
	w := vhNewWorld()
	sys := w.sys
	g := &vhC07{}
	vhC07G = g
	vhC07Done = make(chan struct{})
	vhC07Timeout = make(chan time.Time)
	sys.options.Context = vhDoneCtx{context.Background()}
	sys.cancel = func() {
		vrtVisible("cancel")
		if g.cancelled == 0 {
			g.cancelled = 1
			close(vhC07Done)
		}
	}
	vrtRedirect("time.After", func(d time.Duration) <-chan time.Time { return vhC07Timeout })
	vrtRedirect("(*github.com/kercylan98/vivid/internal/actor.Context).Kill", func(c *Context, ref vivid.ActorRef, poison bool, reason ...string) {
		vrtVisible("kill-root")
		g.rootKills++
	})
	vrtRedirect("(*github.com/kercylan98/vivid/internal/scheduler.Scheduler).Stop", func(sc *scheduler.Scheduler) {
		vrtVisible("scheduler-stop")
		g.schedStops++
	})
	sys.Context = nil // Start() spawns the real guard context itself
	err := sys.Start()
	vrtAssert(err == nil, "start-ok")
	vrtShared(&sys.status, &sys.statusLock)
	vrtSharedChan(sys.guardClosedSignal)
	vrtSharedChan(vhC07Done)
	vrtSharedChan(vhC07Timeout)
	vrtShared(&g.stopADone, &g.stopBDone, &g.stopAErr, &g.stopBErr, &g.cancelled)
	vrtShared(&g.startDone, &g.startErr, &g.chainRuns, &g.rootKills, &g.schedStops)
	// a Start() that gets past the status check (it must not) runs this instead of
	// the real start chain
	vrtRedirect("(*github.com/kercylan98/vivid/internal/chain.Chains).Run", func(c *chain.Chains) error {
		vrtVisible("start-chain-runs-again")
		g.chainRuns++
		return nil
	})
	withStart := vrtParam("start", 0) == 1
	noStop := vrtParam("nostop", 0) == 1
	if !noStop {
		vrtThread("stopA", func() { g.stopAErr = vhErrCode(sys.Stop()); g.stopADone = 1 })
	} else {
		g.stopADone, g.stopAErr = 1, 1
	}
	if withStart {
		// the second caller calls Start() instead of Stop(): it must be told
		// already-started or already-stopped, whatever the interleaving
		g.stopBDone, g.stopBErr = 1, 1
		vrtThread("startAgain", func() { g.startErr = vhErrCode(sys.Start()); g.startDone = 1 })
	} else if !noStop {
		g.startDone, g.startErr = 1, 1
		vrtThread("stopB", func() { g.stopBErr = vhErrCode(sys.Stop()); g.stopBDone = 1 })
	} else {
		g.startDone, g.startErr = 1, 1
		g.stopBDone, g.stopBErr = 1, 1
	}
	vrtThread("root-terminates", func() { close(sys.guardClosedSignal) })
	if vrtParam("timeout", 0) == 1 {
		vrtThread("stop-timeout-fires", func() { close(vhC07Timeout) })
	}
	if vrtParam("cancel", 0) == 1 {
		vrtThread("context-cancelled", func() { sys.cancel() })
	}

	vrtFinal("every-stop-call-returns", func() bool { return g.stopADone == 1 && g.stopBDone == 1 })
	vrtFinal("concurrent-start-returns", func() bool { return g.startDone == 1 })
	vrtFinal("concurrent-start-is-rejected-with-already-started-or-already-stopped", func() bool { return g.startErr == 1 || g.startErr == 4 })
	vrtSafety("start-chain-never-runs-twice", func() bool { return g.chainRuns == 0 })
	vrtSafety("root-killed-at-most-once", func() bool { return g.rootKills <= 1 })
	// Stop (or the context cancellation) kills the root exactly once and, unless
	// the stop timed out, stops the scheduler exactly once
	vrtFinal("shutdown-kills-the-root-exactly-once", func() bool { return g.rootKills == 1 })
	vrtFinal("scheduler-stopped-once-unless-stop-timed-out", func() bool {
		if g.stopAErr == 2 || g.stopBErr == 2 {
			return g.schedStops <= 1
		}
		return g.schedStops == 1 || (vrtParam("timeout", 0) == 1 && g.schedStops == 0)
	})
	// the winner is the one call that performs the shutdown; with an external
	// context cancellation the guardian goroutine may be that one, in which case
	// both callers are told already-stopped
	external := vrtParam("cancel", 0) == 1
	vrtFinal("exactly-one-stop-wins", func() bool {
		a, b := g.stopAErr, g.stopBErr
		if a == 3 || b == 3 {
			return false
		}
		if a == 1 && b == 1 {
			return external
		}
		if withStart {
			return a == 0 || a == 2
		}
		return a == 1 || b == 1
	})
	vrtFinal("status-is-stopped", func() bool { return sys.status == stop })
}
