//go:build verif

package actor

import (
	"context"
	"sync"
	"time"

	"github.com/kercylan98/vivid"
	"github.com/kercylan98/vivid/internal/guard"
	"github.com/kercylan98/vivid/internal/scheduler"
	"github.com/kercylan98/vivid/pkg/ves"
)

// C10 — the documented-concurrent API called from several goroutines on a LIVE
// mini system: real System, real root guard actor, real Contexts with their
// real UnboundedMailbox and `go process()` consumer goroutines. Engine A runs
// it in preemptive mode with the happens-before race detector: every schedule
// with at most `preempt` preemptions at sync / atomic / channel operations.

func vhLiveSystem() *System {
	opts := vivid.NewActorSystemOptions()
	sys := &System{
		options:           opts,
		futureAgents:      make(map[vivid.ActorPath]map[vivid.ActorPath]*AgentRef),
		guardClosedSignal: make(chan struct{}),
	}
	sys.options.Context, sys.cancel = context.WithCancel(context.Background())
	sys.eventStream = newEventStream(sys)
	sys.scheduler = scheduler.VrtNewScheduler(scheduler.VrtNewFakeQuartz())
	root, err := NewContext(sys, nil, guard.NewActor(sys.guardClosedSignal))
	vrtAssert(err == nil, "live-root-context")
	sys.Context = root
	sys.appendActorContext(root)
	sys.status = start
	return sys
}

// vhCountActor counts what it sees; optionally spawns a child on a user message.
type vhCountActor struct {
	mu       sync.Mutex
	user     int
	launched int
	killed   int
	spawn    bool
	reply    bool
	fail     bool
}

func (a *vhCountActor) OnReceive(ctx vivid.ActorContext) {
	switch ctx.Message().(type) {
	case *vivid.OnLaunch:
		a.mu.Lock()
		a.launched++
		a.mu.Unlock()
	case *vivid.OnKilled:
		a.mu.Lock()
		a.killed++
		a.mu.Unlock()
	case *vhUserMsg:
		a.mu.Lock()
		a.user++
		a.mu.Unlock()
		if a.spawn {
			_, _ = ctx.ActorOf(&vhCountActor{})
		}
		if a.reply {
			ctx.Reply(&vhUserMsg{N: 99})
		}
		if a.fail {
			panic("vh-c10-fault")
		}
	}
}

// vhWatchActor watches its target when told to and counts the termination notices.
type vhWatchActor struct {
	target  vivid.ActorRef
	notices int
}

func (a *vhWatchActor) OnReceive(ctx vivid.ActorContext) {
	switch m := ctx.Message().(type) {
	case *vhUserMsg:
		ctx.Watch(a.target)
	case *vivid.OnKilled:
		if m.Ref.Equals(a.target) {
			a.notices++
		}
	}
}

// vhTreeConsistent: every registered context is in its parent's children map
// unless it is terminated, and every children entry designates a registered
// context (called at quiescence, all goroutines parked).
func vhTreeConsistent(sys *System) bool {
	ok := true
	sys.actorContexts.Range(func(k, v any) bool {
		c, isCtx := v.(*Context)
		if !isCtx {
			return true
		}
		if c.parent != nil {
			pv, found := sys.actorContexts.Load(c.parent.GetPath())
			if !found {
				ok = false
				return false
			}
			p := pv.(*Context)
			if _, listed := p.children[c.ref.GetPath()]; !listed {
				ok = false
				return false
			}
		}
		for path := range c.children {
			if _, found := sys.actorContexts.Load(path); !found {
				ok = false
				return false
			}
		}
		return true
	})
	return ok
}

// VH_C10_api: two or three goroutines use the ActorSystem API concurrently;
// param "scenario" selects the mix.
func VH_C10_api() {
	sys := vhLiveSystem()
	a0 := &vhCountActor{}
	r0, err := sys.ActorOf(a0, vivid.WithActorName("a0"))
	vrtAssert(err == nil, "setup-spawn")
	vrtYield()
	var wg sync.WaitGroup
	run := func(f func()) {
		wg.Add(1)
		go func() {
			f()
			wg.Done()
		}()
	}
	switch vrtParam("scenario", 0) {
	case 0: // ActorOf || ActorOf || Tell
		run(func() {
			r, err := sys.ActorOf(&vhCountActor{}, vivid.WithActorName("b"))
			if err == nil {
				sys.Tell(r, &vhUserMsg{N: 1})
			}
		})
		run(func() {
			r, err := sys.ActorOf(&vhCountActor{}, vivid.WithActorName("c"))
			if err == nil {
				sys.Tell(r, &vhUserMsg{N: 2})
			}
		})
		run(func() { sys.Tell(r0, &vhUserMsg{N: 3}) })
	case 1: // Kill || Tell || FindActor
		run(func() { sys.Kill(r0, vrtBool(), "x") })
		run(func() { sys.Tell(r0, &vhUserMsg{N: 1}) })
		run(func() { _, _ = sys.FindActor("/a0") })
	case 2: // a top-level actor terminates while another is being spawned
		run(func() { sys.Kill(r0, false, "x") })
		run(func() { _, _ = sys.ActorOf(&vhCountActor{}, vivid.WithActorName("b")) })
	case 3: // an actor spawns children in its handler while it is being killed and told
		a0.spawn = true
		run(func() { sys.Tell(r0, &vhUserMsg{N: 1}) })
		run(func() { sys.Kill(r0, vrtBool(), "x") })
	case 4: // same name spawned twice concurrently: exactly one wins
		var e1, e2 error
		run(func() { _, e1 = sys.ActorOf(&vhCountActor{}, vivid.WithActorName("dup")) })
		run(func() { _, e2 = sys.ActorOf(&vhCountActor{}, vivid.WithActorName("dup")) })
		wg.Wait()
		vrtAssert((e1 == nil) != (e2 == nil), "same-name-spawned-concurrently-exactly-one-wins")
	case 5: // event stream from several goroutines while a subscriber terminates
		es := sys.eventStream
		c0v, _ := sys.actorContexts.Load("/a0")
		c0 := c0v.(*Context)
		run(func() { es.Subscribe(c0, vhEvtA{}) })
		run(func() { es.Publish(sys.Context, vhEvtA{N: 1}) })
		run(func() { sys.Kill(r0, false, "x") })
	case 7: // concurrent Asks answered by the actor; each future gets its own reply
		a0.reply = true
		var m1, m2 vivid.Message
		var e1, e2 error
		run(func() { m1, e1 = sys.Ask(r0, &vhUserMsg{N: 1}).Result() })
		run(func() { m2, e2 = sys.Ask(r0, &vhUserMsg{N: 2}).Result() })
		wg.Wait()
		vrtAssert(e1 == nil && e2 == nil && m1 != nil && m2 != nil, "concurrent-asks-each-get-a-reply")
	case 8: // an actor fails (supervised by the root) while it is told and killed
		a0.fail = true
		run(func() { sys.Tell(r0, &vhUserMsg{N: 1}) })
		run(func() { sys.Tell(r0, &vhUserMsg{N: 2}) })
		run(func() { sys.Kill(r0, vrtBool(), "x") })
	case 9: // one future completed, awaited, closed and piped from different goroutines
		a0.reply = true
		f := sys.Ask(r0, &vhUserMsg{N: 1})
		fw, _ := sys.ActorOf(&vhCountActor{}, vivid.WithActorName("fw"))
		var e1 error
		run(func() { _, e1 = f.Result() })
		run(func() { f.Close(vivid.ErrorFutureTimeout) })
		run(func() { _ = f.PipeTo(vivid.ActorRefs{fw}) })
		wg.Wait()
		_ = e1
	case 10: // Stop racing spawns and tells: no crash, no race, nobody blocked forever
		run(func() { _ = sys.Stop(time.Minute) })
		run(func() {
			r, err := sys.ActorOf(&vhCountActor{}, vivid.WithActorName("late"))
			if err == nil {
				sys.Tell(r, &vhUserMsg{N: 1})
			}
		})
		run(func() { sys.Tell(r0, &vhUserMsg{N: 2}) })
	case 11: // unnamed spawns from two goroutines get distinct names
		var ra, rb vivid.ActorRef
		var ea, eb error
		run(func() { ra, ea = sys.ActorOf(&vhCountActor{}) })
		run(func() { rb, eb = sys.ActorOf(&vhCountActor{}) })
		wg.Wait()
		vrtAssert(ea == nil && eb == nil && ra != nil && rb != nil && !ra.Equals(rb), "concurrent-unnamed-spawns-get-distinct-references")
	case 12: // an actor watches another from its handler while that one is killed elsewhere
		wa := &vhWatchActor{target: r0}
		wr, _ := sys.ActorOf(wa, vivid.WithActorName("w"))
		vrtYield()
		run(func() { sys.Tell(wr, &vhUserMsg{N: 1}) }) // makes w call ctx.Watch(r0)
		run(func() { sys.Kill(r0, vrtBool(), "x") })
		wg.Wait()
		vrtYield()
		vrtRaceOff()
		vrtAssert(wa.notices <= 1, "watcher-notified-at-most-once")
	case 6: // one ActorRef shared by goroutines (cache inside the reference)
		cl := r0.Clone()
		run(func() { sys.Tell(cl, &vhUserMsg{N: 1}) })
		run(func() { sys.Tell(cl, &vhUserMsg{N: 2}) })
		run(func() { _ = cl.String(); _ = cl.Equals(r0) })
	}
	wg.Wait()
	vrtYield()
	vrtRaceOff() // the oracle below reads the tree at quiescence from this goroutine
	vrtAssert(vhTreeConsistent(sys), "actor-tree-consistent-at-quiescence")
	vrtReach("quiescent")
	_ = ves.ActorKilledEvent{}
}

// vhFirstActor records the first message its behaviour sees.
type vhFirstActor struct {
	mu    sync.Mutex
	first vivid.Message
	n     int
}

func (a *vhFirstActor) OnReceive(ctx vivid.ActorContext) {
	a.mu.Lock()
	if a.n == 0 {
		a.first = ctx.Message()
	}
	a.n++
	a.mu.Unlock()
}

// vhGreeter tells every newly spawned actor a greeting as soon as it learns
// about it from the event stream.
type vhGreeter struct{}

func (vhGreeter) OnReceive(ctx vivid.ActorContext) {
	switch m := ctx.Message().(type) {
	case *vivid.OnLaunch:
		ctx.EventStream().Subscribe(ctx, ves.ActorSpawnedEvent{})
	case ves.ActorSpawnedEvent:
		if !m.ActorRef.Equals(ctx.Ref()) {
			ctx.Tell(m.ActorRef, &vhUserMsg{N: 1})
		}
	}
}

// VH_C05_launch_first_live: on the live system (real mailboxes and consumer
// goroutines, preemptive mode) a registry-style listener greets every actor it
// learns about from ActorSpawnedEvent. Whatever the schedule, the new actor's
// behaviour sees OnLaunch before the greeting: nobody can learn about the
// actor from the system before its OnLaunch is in its mailbox.
func VH_C05_launch_first_live() {
	sys := vhLiveSystem()
	_, err := sys.ActorOf(vhGreeter{}, vivid.WithActorName("greeter"))
	vrtAssert(err == nil, "setup-spawn")
	vrtYield()
	na := &vhFirstActor{}
	_, err = sys.ActorOf(na, vivid.WithActorName("n"))
	vrtAssert(err == nil, "spawn-ok")
	vrtYield()
	vrtRaceOff()
	vrtAssert(na.n >= 1, "new-actor-launched")
	_, isLaunch := na.first.(*vivid.OnLaunch)
	vrtAssert(isLaunch, "onlaunch-before-any-other-message")
	if na.n >= 2 {
		vrtReach("greeted")
	}
}

// vhAsker asks `target` on every user message and keeps the futures.
type vhAsker struct {
	target  vivid.ActorRef
	futures []vivid.Future[vivid.Message]
}

func (a *vhAsker) OnReceive(ctx vivid.ActorContext) {
	if u, ok := ctx.Message().(*vhUserMsg); ok {
		a.futures = append(a.futures, ctx.Ask(a.target, &vhUserMsg{N: u.N}, time.Hour))
	}
}

// vhReplyFirst replies only to the request numbered 1.
type vhReplyFirst struct{}

func (vhReplyFirst) OnReceive(ctx vivid.ActorContext) {
	if u, ok := ctx.Message().(*vhUserMsg); ok && u.N == 1 {
		ctx.Reply(&vhUserMsg{N: 100})
	}
}

// VH_C04_registration_live: on the live system (preemptive mode) an asker's
// first Ask is answered - on the replier's goroutine - while the asker is
// issuing its second Ask, which is never answered; then the asker is killed.
// Whatever the interleaving, the second Ask is completed by the asker's death
// and the system keeps no registration for either.
func VH_C04_registration_live() {
	sys := vhLiveSystem()
	rref, err := sys.ActorOf(vhReplyFirst{}, vivid.WithActorName("r"))
	vrtAssert(err == nil, "setup-spawn")
	asker := &vhAsker{target: rref}
	aref, err := sys.ActorOf(asker, vivid.WithActorName("a"))
	vrtAssert(err == nil, "setup-spawn")
	vrtYield()
	sys.Tell(aref, &vhUserMsg{N: 1})
	sys.Tell(aref, &vhUserMsg{N: 2})
	vrtYield()
	sys.Kill(aref, false, "x")
	vrtYield()
	vrtRaceOff()
	vrtAssert(len(asker.futures) == 2, "both-asks-issued")
	left := 0
	sys.actorContexts.Range(func(k, v any) bool {
		if _, isCtx := v.(*Context); !isCtx {
			left++
		}
		return true
	})
	vrtAssert(left == 0, "no-registration-after-the-asker-died")
	vrtAssert(len(sys.futureAgents) == 0, "no-registration-after-the-asker-died")
	if len(asker.futures) == 2 {
		m1, e1 := asker.futures[0].Result()
		u, ok := m1.(*vhUserMsg)
		vrtAssert(e1 == nil && ok && u.N == 100, "answered-ask-has-its-reply")
		_, e2 := asker.futures[1].Result()
		vrtAssert(e2 != nil, "outstanding-ask-completed-by-the-askers-death")
	}
	vrtReach("asker-dead")
}

// vhPipeCount counts the PipeResults it is told.
type vhPipeCount struct {
	mu sync.Mutex
	n  int
	ok int
}

func (a *vhPipeCount) OnReceive(ctx vivid.ActorContext) {
	if pr, isPipe := ctx.Message().(*vivid.PipeResult); isPipe {
		a.mu.Lock()
		a.n++
		if pr.Error == nil && pr.Message != nil {
			a.ok++
		}
		a.mu.Unlock()
	}
}

// VH_C04_pipe_live: a future is piped to a forwarder (first PipeTo on it) while
// the reply that completes it arrives on the replier's goroutine. Whatever the
// interleaving, the forwarder is told the final result exactly once.
func VH_C04_pipe_live() {
	sys := vhLiveSystem()
	rref, err := sys.ActorOf(vhReplyFirst{}, vivid.WithActorName("r"))
	vrtAssert(err == nil, "setup-spawn")
	fw := &vhPipeCount{}
	fref, err := sys.ActorOf(fw, vivid.WithActorName("fw"))
	vrtAssert(err == nil, "setup-spawn")
	vrtYield()
	f := sys.Ask(rref, &vhUserMsg{N: 1}, time.Hour) // the reply is produced by r's consumer goroutine
	var perr error
	var wg sync.WaitGroup
	wg.Add(1)
	go func() {
		perr = f.PipeTo(vivid.ActorRefs{fref})
		wg.Done()
	}()
	wg.Wait()
	vrtYield()
	m, rerr := f.Result()
	vrtRaceOff()
	u, ok := m.(*vhUserMsg)
	vrtAssert(rerr == nil && ok && u.N == 100, "answered-ask-has-its-reply")
	vrtAssert(perr == nil, "pipeto-accepted")
	vrtAssert(fw.n == 1, "forwarder-told-exactly-once")
	vrtAssert(fw.ok == 1, "forwarder-gets-the-final-result")
	vrtReach("piped")
}

// vhSpawnOnKill spawns a child from its own OnKill handler (while it is stopping).
type vhSpawnOnKill struct {
	child *vhTrace
}

func (a *vhSpawnOnKill) OnReceive(ctx vivid.ActorContext) {
	if _, ok := ctx.Message().(*vivid.OnKill); ok && a.child != nil {
		_, _ = ctx.ActorOf(a.child, vivid.WithActorName("late"))
	}
}

// vhTrace records every message its behaviour sees.
type vhTrace struct {
	mu   sync.Mutex
	seen []vivid.Message
}

func (a *vhTrace) OnReceive(ctx vivid.ActorContext) {
	a.mu.Lock()
	a.seen = append(a.seen, ctx.Message())
	a.mu.Unlock()
}

// VH_C05_spawn_while_stopping: an actor spawns a child from its OnKill handler,
// i.e. while it is already stopping. The child is stopped with its parent, but
// it is still an incarnation like any other: OnLaunch first, then OnKill, its
// own OnKilled last.
func VH_C05_spawn_while_stopping() {
	sys := vhLiveSystem()
	tr := &vhTrace{}
	pref, err := sys.ActorOf(&vhSpawnOnKill{child: tr}, vivid.WithActorName("p"))
	vrtAssert(err == nil, "setup-spawn")
	vrtYield()
	sys.Kill(pref, vrtBool(), "x")
	vrtYield()
	vrtRaceOff()
	vrtAssert(len(tr.seen) >= 1, "child-spawned-while-stopping-is-launched")
	if len(tr.seen) >= 1 {
		_, isLaunch := tr.seen[0].(*vivid.OnLaunch)
		vrtAssert(isLaunch, "onlaunch-before-any-other-message")
		last, isKilled := tr.seen[len(tr.seen)-1].(*vivid.OnKilled)
		vrtAssert(isKilled && last.Ref.GetPath() == "/p/late", "own-onkilled-last")
	}
	vrtReach("spawned-while-stopping")
}
