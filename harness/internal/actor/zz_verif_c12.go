//go:build verif

package actor

import (
	"errors"
	"time"

	"github.com/kercylan98/vivid"
	"github.com/kercylan98/vivid/internal/mailbox"
	"github.com/kercylan98/vivid/internal/messages"
	"github.com/kercylan98/vivid/internal/remoting/serialize"
)

// C12 — envelope round trip for every message type registered by packages
// vivid, internal/messages and internal/actor (cluster types: see the harness
// in internal/cluster).

// vhUser is an unregistered ("outside") message; it travels through the codec.
type vhUser struct{ Payload []byte }

type vhCodec struct{}

func (vhCodec) Encode(message any) ([]byte, error) {
	if message == nil {
		// like a JSON codec ("null"): the nil message of a failed PipeResult
		return []byte{0}, nil
	}
	u, ok := message.(*vhUser)
	if !ok {
		return nil, vivid.ErrorIllegalArgument
	}
	out := make([]byte, 1+len(u.Payload))
	out[0] = 1
	copy(out[1:], u.Payload)
	return out, nil
}

func (vhCodec) Decode(data []byte) (any, error) {
	if len(data) == 0 {
		return nil, vivid.ErrorIllegalArgument
	}
	if data[0] == 0 {
		return nil, nil
	}
	out := make([]byte, len(data)-1)
	copy(out, data[1:])
	return &vhUser{Payload: out}, nil
}

// vhStr returns a string with symbolic bytes. Lengths are not cross-multiplied
// over the fields of a message: one (base, step) pair is chosen per run and the
// n-th string of the run has length (base + n*step) mod (max+1), so every field
// sees every length and neighbouring fields see equal as well as different
// lengths, at 2*(max+1) runs instead of (max+1)^fields.
var vhStrBase, vhStrStep, vhStrN = -1, 0, 0

// vhBigLen >= 0: the first string / byte slice of the run gets exactly this
// length (payload sizes around the writer's buffer-growth boundaries), all
// later ones are empty.
var vhBigLen = -1

// vhFewChoices: the large-payload job fixes the reference-shaped choices (they
// are covered by the small-length job) so that only the length varies.
var vhFewChoices = false

func vhStr(max int) string {
	if vhBigLen >= 0 {
		n := 0
		if vhStrN == 0 {
			n = vhBigLen
		}
		vhStrN++
		return vrtString(n)
	}
	if vhStrBase < 0 {
		vhStrBase = vrtChoose(max + 1)
		vhStrStep = vrtChoose(2)
	}
	n := (vhStrBase + vhStrN*vhStrStep) % (max + 1)
	vhStrN++
	return vrtString(n)
}

func vhBytes(max int) []byte {
	if vhBigLen >= 0 {
		n := 0
		if vhStrN == 0 {
			n = vhBigLen
		}
		vhStrN++
		return vrtBytes(n)
	}
	if vhStrBase < 0 {
		vhStrBase = vrtChoose(max + 1)
		vhStrStep = vrtChoose(2)
	}
	n := (vhStrBase + vhStrN*vhStrStep) % (max + 1)
	vhStrN++
	return vrtBytes(n)
}

// vhRef returns nil or a reference with arbitrary (symbolic) address and path.
func vhRef(maxlen int) *Ref {
	if vhFewChoices {
		return &Ref{address: "h:1", path: "/a"}
	}
	if vrtChoose(2) == 0 {
		return nil
	}
	return &Ref{address: vhStr(maxlen), path: vhStr(maxlen)}
}

// vhValidRef returns nil or one of a few references as the API produces them
// (NewRef-normalised address and path): the value space of an ActorRef-typed
// message field.
func vhValidRef() vivid.ActorRef {
	if vhFewChoices {
		r, _ := ParseRef("127.0.0.1:8080/user/a/b")
		return r
	}
	cands := []string{"", "localhost/", "localhost/user/a", "127.0.0.1:8080/user/a/b", "node-1:9000/@remoting"}
	k := vrtChoose(len(cands))
	if k == 0 {
		return nil
	}
	r, err := ParseRef(cands[k])
	vrtAssert(err == nil, "valid-ref-corpus")
	return r
}

func vhRefIface(r *Ref) vivid.ActorRef {
	if r == nil {
		return nil
	}
	return r
}

func vhTime() time.Time { return time.Unix(0, vrtInt64()) }

var vhC12Names = []string{"OnLaunch", "OnKill", "OnKilled", "PipeResult", "Pong", "Error", "SchedulerMessage",
	"NoneArgsCommandMessage", "PingMessage", "PongMessage", "WatchMessage", "UnwatchMessage", "user-codec"}

// vhPayload builds a message for a nested Message field.
func vhPayload(maxlen int) (vivid.Message, func(got vivid.Message, name string)) {
	switch vrtChoose(4) {
	case 3:
		// a registered message without fields: its encoded body is zero bytes,
		// which is not the same thing as "no message"
		w := &messages.WatchMessage{}
		vrtReach("nested-fieldless-message")
		return w, func(got vivid.Message, name string) {
			_, ok := got.(*messages.WatchMessage)
			vrtAssert(ok, name)
		}
	case 0:
		u := &vhUser{Payload: vhBytes(maxlen)}
		return u, func(got vivid.Message, name string) {
			g, ok := got.(*vhUser)
			vrtAssert(ok && len(g.Payload) == len(u.Payload), name)
			for i := range u.Payload {
				vrtAssert(g.Payload[i] == u.Payload[i], name)
			}
		}
	case 1:
		p := &messages.PingMessage{Time: vhTime()}
		return p, func(got vivid.Message, name string) {
			g, ok := got.(*messages.PingMessage)
			vrtAssert(ok && g.Time.UnixNano() == p.Time.UnixNano(), name)
		}
	default:
		c := &messages.NoneArgsCommandMessage{Command: messages.Command(vrtUint8())}
		return c, func(got vivid.Message, name string) {
			g, ok := got.(*messages.NoneArgsCommandMessage)
			vrtAssert(ok && g.Command == c.Command, name)
		}
	}
}

// VH_C12_envelope: encode then decode an envelope carrying an arbitrary value
// of the message type selected by param "type"; flag, addresses, paths and every
// field must survive.
// Types with a variable-size field, for the large-payload job.
var vhC12Large = []int{1, 3, 5, 6, 12}

func VH_C12_envelope() {
	typ := vrtParam("type", 0)
	maxlen := vrtParam("maxlen", 2)
	if sel := vrtParam("sel", -1); sel >= 0 {
		// large-payload variant: one field of the message has a length L chosen
		// (symbolically) from [biglo, bighi]; contents symbolic
		typ = vhC12Large[sel]
		lo, hi := vrtParam("biglo", 200), vrtParam("bighi", 270)
		vhBigLen = lo + vrtChoose(hi-lo+1)
		vhFewChoices = true
		vrtReach("large-payload")
	}
	var msg vivid.Message
	var check func(got vivid.Message)
	switch vhC12Names[typ] {
	case "OnLaunch":
		msg = &vivid.OnLaunch{}
		check = func(got vivid.Message) { _, ok := got.(*vivid.OnLaunch); vrtAssert(ok, "roundtrip-equal") }
	case "OnKill":
		m := &vivid.OnKill{Killer: vhValidRef(), Reason: vhStr(maxlen), Poison: vrtBool()}
		msg = m
		check = func(got vivid.Message) {
			g, ok := got.(*vivid.OnKill)
			vrtAssert(ok && g.Reason == m.Reason && g.Poison == m.Poison, "roundtrip-equal")
			vrtAssert((g.Killer == nil) == (m.Killer == nil), "roundtrip-equal")
			if m.Killer != nil && g.Killer != nil {
				vrtAssert(g.Killer.GetAddress() == m.Killer.GetAddress() && g.Killer.GetPath() == m.Killer.GetPath(), "roundtrip-equal")
			}
		}
	case "OnKilled":
		m := &vivid.OnKilled{Ref: vhValidRef()}
		msg = m
		check = func(got vivid.Message) {
			g, ok := got.(*vivid.OnKilled)
			vrtAssert(ok && (g.Ref == nil) == (m.Ref == nil), "roundtrip-equal")
			if m.Ref != nil && g.Ref != nil {
				vrtAssert(g.Ref.GetAddress() == m.Ref.GetAddress() && g.Ref.GetPath() == m.Ref.GetPath(), "roundtrip-equal")
			}
		}
	case "PipeResult":
		inner, innerCheck := vhPayload(maxlen)
		m := &vivid.PipeResult{Id: vhStr(maxlen), Message: inner}
		plain := false
		switch vrtChoose(5) {
		case 1:
			m.Error = vivid.ErrorFutureTimeout
			vrtReach("pipe-error-registered")
		case 2:
			m.Error = vivid.ErrorActorDeaded.WithMessage("x" + vhStr(maxlen))
			vrtReach("pipe-error-custom-message")
		case 3:
			// a failure that is not a *vivid.Error (e.g. the target replied with a
			// plain error): it travels as the generic exception error
			m.Error = errors.New("boom")
			plain = true
			vrtReach("pipe-error-plain")
		case 4:
			m.Error = vivid.ErrorException
			vrtReach("pipe-error-exception")
		}
		msg = m
		check = func(got vivid.Message) {
			g, ok := got.(*vivid.PipeResult)
			vrtAssert(ok && g.Id == m.Id, "roundtrip-equal")
			innerCheck(g.Message, "roundtrip-equal")
			vrtAssert((g.Error == nil) == (m.Error == nil), "roundtrip-equal")
			if m.Error != nil && g.Error != nil && plain {
				ge, ok := g.Error.(*vivid.Error)
				vrtAssert(ok && ge.GetCode() == vivid.ErrorException.GetCode(), "roundtrip-equal")
			} else if m.Error != nil && g.Error != nil {
				ge, ok := g.Error.(*vivid.Error)
				me := m.Error.(*vivid.Error)
				vrtAssert(ok && ge.GetCode() == me.GetCode() && ge.GetMessage() == me.GetMessage(), "roundtrip-equal")
			}
		}
	case "Pong":
		m := &vivid.Pong{PingTime: vhTime(), RespondTime: vhTime()}
		msg = m
		check = func(got vivid.Message) {
			g, ok := got.(*vivid.Pong)
			vrtAssert(ok && g.PingTime.UnixNano() == m.PingTime.UnixNano() && g.RespondTime.UnixNano() == m.RespondTime.UnixNano(), "roundtrip-equal")
		}
	case "Error":
		var m *vivid.Error
		if vrtChoose(2) == 0 {
			m = vivid.ErrorNotFound
		} else {
			m = vivid.ErrorIllegalArgument.WithMessage("x" + vhStr(maxlen))
		}
		msg = m
		check = func(got vivid.Message) {
			g, ok := got.(*vivid.Error)
			vrtAssert(ok && g.GetCode() == m.GetCode() && g.GetMessage() == m.GetMessage(), "roundtrip-equal")
		}
	case "SchedulerMessage":
		inner, innerCheck := vhPayload(maxlen)
		m := &SchedulerMessage{Reference: vhStr(maxlen), Message: inner}
		msg = m
		check = func(got vivid.Message) {
			g, ok := got.(*SchedulerMessage)
			vrtAssert(ok && g.Reference == m.Reference, "roundtrip-equal")
			innerCheck(g.Message, "roundtrip-equal")
		}
	case "NoneArgsCommandMessage":
		m := &messages.NoneArgsCommandMessage{Command: messages.Command(vrtUint8())}
		msg = m
		check = func(got vivid.Message) {
			g, ok := got.(*messages.NoneArgsCommandMessage)
			vrtAssert(ok && g.Command == m.Command, "roundtrip-equal")
		}
	case "PingMessage":
		m := &messages.PingMessage{Time: vhTime()}
		msg = m
		check = func(got vivid.Message) {
			g, ok := got.(*messages.PingMessage)
			vrtAssert(ok && g.Time.UnixNano() == m.Time.UnixNano(), "roundtrip-equal")
		}
	case "PongMessage":
		m := &messages.PongMessage{Ping: &messages.PingMessage{Time: vhTime()}, RespondTime: vhTime()}
		msg = m
		check = func(got vivid.Message) {
			g, ok := got.(*messages.PongMessage)
			vrtAssert(ok && g.Ping != nil, "roundtrip-equal")
			vrtAssert(g.Ping.Time.UnixNano() == m.Ping.Time.UnixNano() && g.RespondTime.UnixNano() == m.RespondTime.UnixNano(), "roundtrip-equal")
		}
	case "WatchMessage":
		msg = &messages.WatchMessage{}
		check = func(got vivid.Message) { _, ok := got.(*messages.WatchMessage); vrtAssert(ok, "roundtrip-equal") }
	case "UnwatchMessage":
		msg = &messages.UnwatchMessage{}
		check = func(got vivid.Message) { _, ok := got.(*messages.UnwatchMessage); vrtAssert(ok, "roundtrip-equal") }
	case "user-codec":
		u := &vhUser{Payload: vhBytes(maxlen + 1)}
		msg = u
		check = func(got vivid.Message) {
			g, ok := got.(*vhUser)
			vrtAssert(ok && len(g.Payload) == len(u.Payload), "roundtrip-equal")
			for i := range u.Payload {
				vrtAssert(g.Payload[i] == u.Payload[i], "roundtrip-equal")
			}
		}
	}
	if vhBigLen >= 0 {
		// envelope addresses stay small (real addresses are host:port)
		vhBigLen = -1
		vhStrBase, vhStrStep = 0, 1
	}
	system := vrtBool()
	sender, receiver := vhRef(maxlen), vhRef(maxlen)
	env := mailbox.NewEnvelop(system, vhRefIface(sender), vhRefIface(receiver), msg)

	data, err := serialize.EncodeEnvelopWithRemoting(vhCodec{}, env)
	vrtAssert(err == nil, "encode-ok")
	vrtReach("encoded")
	sys2, sa, sp, ra, rp, got, err := serialize.DecodeEnvelopWithRemoting(vhCodec{}, data)
	vrtAssert(err == nil, "decode-ok")
	vrtReach("decoded")
	vrtAssert(sys2 == system, "envelope-meta-equal")
	if sender != nil {
		vrtAssert(sa == sender.address && sp == sender.path, "envelope-meta-equal")
	} else {
		vrtAssert(sa == "" && sp == "", "envelope-meta-equal")
	}
	if receiver != nil {
		vrtAssert(ra == receiver.address && rp == receiver.path, "envelope-meta-equal")
	} else {
		vrtAssert(ra == "" && rp == "", "envelope-meta-equal")
	}
	check(got)
}

// VH_C12_registry_covered: every name in the wire registry (as initialised by
// all packages internal/actor links) is covered by a harness instance.
func VH_C12_registry_covered() {
	covered := map[string]bool{}
	for _, n := range vhC12Names {
		covered[n] = true
	}
	for _, n := range []string{"clusterJoinRequest", "clusterJoinResponse", "clusterGossip", "clusterGossipTick", "clusterGossipCrossDCTick",
		"clusterFailureDetectionTick", "clusterGetViewRequest", "clusterGetViewResponse", "clusterLeaveRequest", "clusterLeaveAck",
		"clusterExitingReady", "clusterLeaveBroadcastRound", "clusterJoinRetryTick", "clusterForceMemberDown", "clusterTriggerViewBroadcast",
		"clusterSingletonForwardedMessage"} {
		covered[n] = true
	}
	all := true
	for _, n := range messages.VrtRegisteredNames() {
		if !covered[n] {
			all = false
			vrtNote("registered message type without a round-trip harness: " + n)
		}
	}
	if all {
		vrtReach("registry-all-covered")
	}
}
