//go:build verif

package actor

import (
	"github.com/kercylan98/vivid"
	"github.com/kercylan98/vivid/internal/mailbox"
	"github.com/kercylan98/vivid/internal/messages"
	"github.com/kercylan98/vivid/internal/remoting/serialize"
)

// C13 — the codec is total.

var vhC13Readers = []string{"OnLaunch", "OnKill", "OnKilled", "PipeResult", "Pong", "Error", "SchedulerMessage",
	"NoneArgsCommandMessage", "PingMessage", "PongMessage", "WatchMessage", "UnwatchMessage"}

// vhNoPanic runs f; a panic of the code under test is the violation `name`.
func vhNoPanic(name string, f func()) {
	defer func() {
		if r := recover(); r != nil {
			if _, mine := r.(vrtAssertFailed); mine {
				panic(r)
			}
			if _, mine := r.(vrtAssumeFailed); mine {
				panic(r)
			}
			if _, mine := r.(vrtExhausted); mine {
				panic(r)
			}
			vrtAssert(false, name)
		}
	}()
	f()
}

// vhC13Codec is the user Codec of the run: the strict harness codec, or none at
// all ("nocodec"=1) — a system may be configured without a Codec (custom types
// are then registered with RegisterCustomMessage), and a message it has no
// (de)serialiser for must still be an error, not a panic.
func vhC13Codec() vivid.Codec {
	if vrtParam("nocodec", 0) == 1 {
		return nil
	}
	return vhStrictCodec{}
}

// VH_C13_reader_total: the registered reader of the type selected by "type"
// on every byte string of length n (n = 0..N, fully symbolic): returns a value
// or an error; never panics; allocation requests stay within the budget.
func VH_C13_reader_total() {
	typ := vrtParam("type", 0)
	name := vhC13Readers[typ]
	// per-type input bound: large enough for a successful decode of the small
	// types, otherwise what stays affordable; "extra" deepens it (thorough)
	bound := []int{2, 12, 6, 24, 18, 12, 22, 3, 10, 18, 2, 2}[typ] + vrtParam("extra", 0)
	n := vrtChoose(bound + 1)
	data := vrtBytes(n)
	vrtAllocBudget(vrtParam("budget", 65536))
	desc := messages.QueryMessageDescByName(name)
	vrtAssert(!desc.IsOutside(), "registered")
	vhNoPanic("decode-no-panic", func() {
		r := messages.NewReader(data)
		msg, err := messages.DeserializeRemotingMessage(vhStrictCodec{}, r, desc)
		if err == nil {
			vrtReach("decoded-ok")
			vrtAssert(msg != nil, "ok-implies-value")
		} else {
			vrtReach("decode-error")
			vrtAssert(msg == nil, "error-implies-no-value")
		}
	})
}

// VH_C13_envelope_symbolic: DecodeEnvelopWithRemoting and Reader.ReadMessage on
// every byte string of length n (n = 0..N, fully symbolic).
func VH_C13_envelope_symbolic() {
	n := vrtChoose(vrtParam("N", 12) + 1)
	data := vrtBytes(n)
	vrtAllocBudget(vrtParam("budget", 65536))
	vhNoPanic("decode-no-panic", func() {
		_, _, _, _, _, msg, err := serialize.DecodeEnvelopWithRemoting(vhC13Codec(), data)
		if err == nil {
			vrtReach("decoded-ok")
			vrtAssert(msg != nil, "ok-implies-value")
		} else {
			vrtReach("decode-error")
		}
	})
	vhNoPanic("decode-no-panic", func() {
		r := messages.NewReader(data)
		_, err := r.ReadMessage(vhC13Codec())
		if err != nil {
			vrtReach("readmessage-error")
		}
	})
}

// vhSampleEnvelope builds a small valid envelope of the selected kind.
func vhSampleEnvelope(kind int) vivid.Envelop {
	ref := func(a, p string) vivid.ActorRef { return &Ref{address: a, path: p} }
	var msg vivid.Message
	switch kind {
	case 0:
		msg = &vivid.PipeResult{Id: "p1", Message: &messages.PingMessage{}, Error: vivid.ErrorFutureTimeout}
	case 1:
		msg = &SchedulerMessage{Reference: "r", Message: &vhUser{Payload: []byte{1, 2}}}
	case 2:
		msg = &vivid.Pong{}
	case 3:
		msg = &vhUser{Payload: []byte{9}}
	case 4:
		msg = vivid.ErrorNotFound
	default:
		msg = &messages.NoneArgsCommandMessage{Command: messages.CommandResumeMailbox}
	}
	return mailbox.NewEnvelop(kind%2 == 0, ref("h:1", "/a"), ref("h:2", "/b"), msg)
}

// VH_C13_envelope_mutations: every truncation and every single-byte corruption
// (position symbolic via choose, new byte value fully symbolic) of valid
// envelope encodings.
func VH_C13_envelope_mutations() {
	kind := vrtParam("kind", 0)
	env := vhSampleEnvelope(kind)
	data, err := serialize.EncodeEnvelopWithRemoting(vhStrictCodec{}, env)
	vrtAssert(err == nil && len(data) > 0, "sample-encodes")
	vrtAllocBudget(vrtParam("budget", 65536))
	var in []byte
	if vrtChoose(2) == 0 {
		cut := vrtChoose(len(data))
		in = data[:cut]
		vrtReach("truncated")
	} else {
		pos := vrtChoose(len(data))
		in = append([]byte{}, data...)
		in[pos] = vrtUint8()
		vrtReach("corrupted")
	}
	vhNoPanic("decode-no-panic", func() {
		_, _, _, _, _, _, err := serialize.DecodeEnvelopWithRemoting(vhC13Codec(), in)
		if err != nil {
			vrtReach("decode-error")
		} else {
			vrtReach("decoded-ok")
		}
	})
}

// VH_C13_encode_total: values the codec does not support give an error value —
// no panic, no unbounded recursion.
func VH_C13_encode_total() {
	type named uint8
	type withMap struct{ M map[string]int }
	var nilRef vivid.ActorRef
	var nilPtr *vivid.OnLaunch
	cases := []struct {
		label string
		enc   func() error
	}{
		{"int", func() error { return messages.NewWriter().WriteFrom(int(1)) }},
		{"uint", func() error { return messages.NewWriter().WriteFrom(uint(1)) }},
		{"uintptr", func() error { return messages.NewWriter().WriteFrom(uintptr(1)) }},
		{"complex", func() error { return messages.NewWriter().WriteFrom(complex(1, 2)) }},
		{"map", func() error { return messages.NewWriter().WriteFrom(map[string]int{"a": 1}) }},
		{"chan", func() error { return messages.NewWriter().WriteFrom(make(chan int)) }},
		{"func", func() error { return messages.NewWriter().WriteFrom(func() {}) }},
		{"named-basic", func() error { return messages.NewWriter().WriteFrom(named(3)) }},
		{"nil-interface", func() error { return messages.NewWriter().WriteFrom(nil) }},
		{"nil-actorref", func() error { return messages.NewWriter().WriteFrom(nilRef) }},
		{"struct-with-map", func() error { return messages.NewWriter().WriteFrom(withMap{}) }},
		{"nil-pointer", func() error { return messages.NewWriter().WriteFrom(nilPtr) }},
		{"message-nil", func() error { return messages.NewWriter().WriteMessage(nil, vhC13Codec()) }},
		{"message-non-pointer", func() error { return messages.NewWriter().WriteMessage("text", vhC13Codec()) }},
		{"message-nil-field-pong", func() error { return messages.NewWriter().WriteMessage(&messages.PongMessage{}, vhC13Codec()) }},
		{"message-pipe-nil-inner", func() error { return messages.NewWriter().WriteMessage(&vivid.PipeResult{Id: "x"}, vhC13Codec()) }},
		{"envelope-nil-message", func() error {
			_, err := serialize.EncodeEnvelopWithRemoting(vhC13Codec(), mailbox.NewEnvelop(false, nil, nil, nil))
			return err
		}},
		{"envelope-non-pointer-message", func() error {
			_, err := serialize.EncodeEnvelopWithRemoting(vhC13Codec(), mailbox.NewEnvelop(false, nil, nil, 42))
			return err
		}},
	}
	k := vrtParam("case", 0)
	if k >= len(cases) {
		return
	}
	c := cases[k]
	vhNoPanic("unsupported-is-error-not-panic", func() {
		err := c.enc()
		vrtAssert(err != nil, "unsupported-is-error")
		vrtReach("returned-error")
	})
}

// vhStrictCodec is a user codec that only understands its own message type
// (it refuses nil): with it a nil message / nil nested message is a value the
// codec does not support, and encoding must return an error.
type vhStrictCodec struct{}

func (vhStrictCodec) Encode(message any) ([]byte, error) {
	if message == nil {
		return nil, vivid.ErrorIllegalArgument
	}
	return vhCodec{}.Encode(message)
}

func (vhStrictCodec) Decode(data []byte) (any, error) {
	if len(data) > 0 && data[0] == 0 {
		return nil, vivid.ErrorIllegalArgument // the strict codec has no encoding for "no message"
	}
	return vhCodec{}.Decode(data)
}
