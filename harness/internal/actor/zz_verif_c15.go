//go:build verif

package actor

import (
	"errors"
	"time"

	"github.com/kercylan98/vivid"
	"github.com/kercylan98/vivid/internal/messages"
	"github.com/kercylan98/vivid/internal/remoting"
	"github.com/kercylan98/vivid/internal/remoting/serialize"
)

// C15 — location transparency, as lemmas over two harness worlds (system A at
// a:1, system B at b:2) joined by an in-memory wire: every ActorRef-taking
// operation issued in A on a reference to an actor of B goes through the real
// findMailbox -> remoting.Mailbox.Enqueue -> EncodeEnvelopWithRemoting, the
// frame is decoded by the real DecodeEnvelopWithRemoting and handed to B's real
// HandleRemotingEnvelop; the effect at B is then compared with the local one.

type vhNet struct {
	a, b       *vhWorld
	ab, ba     *remoting.VrtWire
	useCodec   bool
	undecoded  int
	handleErrs int
}

func vhNewNet() *vhNet {
	n := &vhNet{}
	n.a = vhNewWorldAt("a:1")
	n.b = vhNewWorldAt("b:2")
	mk := func(w *vhWorld, self, peer string) *remoting.VrtWire {
		srvRef, _ := NewRef(self, "/@remoting")
		w.sys.remotingServer = remoting.VrtNewServer(self, vhCodec{}, w.sys, w.root, srvRef, w.sys.eventStream)
		return remoting.VrtConnect(w.sys.remotingServer, peer, w.sys)
	}
	n.ab = mk(n.a, "a:1", "b:2")
	n.ba = mk(n.b, "b:2", "a:1")
	return n
}

// pump moves every frame written on one side to the other side's handler and
// runs both worlds to quiescence, repeatedly.
func (n *vhNet) pump() {
	for round := 0; round < 20; round++ {
		moved := false
		for _, dir := range []struct {
			w  *remoting.VrtWire
			to *vhWorld
		}{{n.ab, n.b}, {n.ba, n.a}} {
			frames := dir.w.Frames()
			dir.w.Reset()
			for _, f := range frames {
				moved = true
				sys, sa, sp, ra, rp, msg, err := serialize.DecodeEnvelopWithRemoting(vhCodec{}, f)
				if err != nil {
					n.undecoded++
					continue
				}
				if err := dir.to.sys.HandleRemotingEnvelop(sys, sa, sp, ra, rp, msg); err != nil {
					n.handleErrs++
				}
			}
		}
		ra := n.a.run(500, "net-terminates")
		rb := n.b.run(500, "net-terminates")
		if !moved && ra == 0 && rb == 0 {
			return
		}
	}
	vrtAssert(false, "net-terminates")
}

var vhC15Ops = []string{"tell", "kill-immediate", "kill-poison", "watch", "ping", "ask-reply", "pipeto", "unwatch", "watch-same-path-two-systems", "pipeto-failure", "pipeto-fieldless"}

// VH_C15_remote_ops: param "op" selects the operation; the same scenario is run
// with the target in the same system ("local") and in the other system
// ("remote") and the observable effect must be the same.
func VH_C15_remote_ops() {
	op := vhC15Ops[vrtParam("op", 0)]
	remote := vrtParam("remote", 1) == 1
	n := vhNewNet()
	ta := vhLogged("target")
	ta.onMsg = func(ctx vivid.ActorContext, m vivid.Message) {
		vhLog = append(vhLog, vhLogEntry{"target", m})
		if u, ok := m.(*vhUser); ok && len(u.Payload) == 1 && u.Payload[0] == 9 {
			ctx.Reply(&vhUser{Payload: []byte{10}})
		}
		if u, ok := m.(*vhUser); ok && len(u.Payload) == 1 && u.Payload[0] == 6 {
			ctx.Reply(&messages.WatchMessage{}) // a registered message without fields: zero-byte body
		}
		if u, ok := m.(*vhUser); ok && len(u.Payload) == 1 && u.Payload[0] == 8 {
			ctx.Reply(errors.New("boom")) // a failure that is not a *vivid.Error
		}
	}
	vhLog = nil
	var t *Context
	if remote && op != "pipeto-failure" {
		t = n.b.spawn(n.b.root, "target", ta)
	} else {
		t = n.a.spawn(n.a.root, "target", ta)
	}
	ca := vhLogged("caller")
	c := n.a.spawn(n.a.root, "caller", ca)
	fa := vhLogged("fwd")
	var fwd *Context
	if remote {
		fwd = n.b.spawn(n.b.root, "fwd", fa)
	} else {
		fwd = n.a.spawn(n.a.root, "fwd", fa)
	}
	// the reference as the caller holds it: parsed from a string, no cache
	ref, err := ParseRef(t.ref.String())
	vrtAssert(err == nil, "setup")
	fref, _ := ParseRef(fwd.ref.String())

	switch op {
	case "tell":
		x, y := vrtUint8(), vrtUint8()
		c.Tell(ref, &vhUser{Payload: []byte{1, x, y}})
		n.pump()
		vrtAssert(vhCountSeen[*vhUser](ta) == 1, "remote-tell-delivers-once")
		for _, m := range ta.seen {
			if u, ok := m.(*vhUser); ok {
				vrtAssert(len(u.Payload) == 3 && u.Payload[1] == x && u.Payload[2] == y, "remote-tell-carries-the-message-value")
			}
		}
	case "kill-immediate", "kill-poison":
		reason := vhStr(3)
		c.Kill(ref, op == "kill-poison", reason)
		n.pump()
		vrtAssert(t.state == killed, "remote-kill-terminates-target")
		k := vhIndexOf("target", vhIsKill)
		vrtAssert(k >= 0, "remote-kill-delivers-onkill")
		if k >= 0 {
			ok := vhLog[k].msg.(*vivid.OnKill)
			vrtAssert(ok.Poison == (op == "kill-poison") && ok.Reason == reason, "onkill-fields-survive")
			vrtAssert(ok.Killer != nil && ok.Killer.Equals(c.ref), "onkill-names-the-killer")
		}
	case "watch", "unwatch":
		c.Watch(ref)
		n.pump()
		if op == "unwatch" {
			c.Unwatch(ref)
			n.pump()
		}
		// the target terminates later
		t.system.Context.Kill(t.ref, false, "later")
		n.pump()
		notice := 0
		for _, m := range ca.seen {
			if k, ok := m.(*vivid.OnKilled); ok && k.Ref != nil && k.Ref.Equals(t.ref) {
				notice++
			}
		}
		if op == "watch" {
			vrtAssert(notice == 1, "remote-watch-delivers-onkilled-naming-the-target")
		} else {
			vrtAssert(notice == 0, "unwatch-stops-the-notice")
		}
	case "watch-same-path-two-systems":
		// a second watcher with the same path as the caller, living in the other system
		cb := vhLogged("callerB")
		c2 := n.b.spawn(n.b.root, "caller", cb)
		vrtAssert(c2.ref.GetPath() == c.ref.GetPath() && c2.ref.GetAddress() != c.ref.GetAddress(), "setup")
		ref2, _ := ParseRef(t.ref.String())
		c.Watch(ref)
		n.pump()
		c2.Watch(ref2)
		n.pump()
		unwatched := vrtBool()
		if unwatched {
			// one of them unwatching must not remove the other's registration
			c2.Unwatch(ref2)
			n.pump()
			vrtReach("other-unwatched")
		} else {
			vrtReach("both-watching")
		}
		t.system.Context.Kill(t.ref, false, "later")
		n.pump()
		count := func(a *vhActor) int {
			k := 0
			for _, m := range a.seen {
				if x, ok := m.(*vivid.OnKilled); ok && x.Ref != nil && x.Ref.Equals(t.ref) {
					k++
				}
			}
			return k
		}
		vrtAssert(count(ca) == 1, "each-watcher-notified-once-regardless-of-location")
		if unwatched {
			vrtAssert(count(cb) == 0, "unwatch-stops-the-notice")
		} else {
			vrtAssert(count(cb) == 1, "each-watcher-notified-once-regardless-of-location")
		}
	case "ping":
		ns := vrtInt64()
		f := c.Ask(ref, &messages.PingMessage{Time: time.Unix(0, ns)}, time.Minute)
		n.pump()
		m, err := f.Result()
		pong, isPong := m.(*messages.PongMessage)
		vrtAssert(err == nil && isPong, "remote-ping-returns-pong")
		if isPong {
			vrtAssert(pong.Ping != nil && pong.Ping.Time.UnixNano() == ns, "pong-echoes-the-ping")
		}
	case "ask-reply":
		f := c.Ask(ref, &vhUser{Payload: []byte{9}}, time.Minute)
		n.pump()
		m, err := f.Result()
		r, ok := m.(*vhUser)
		vrtAssert(err == nil && ok && len(r.Payload) == 1 && r.Payload[0] == 10, "remote-ask-gets-its-reply")
	case "pipeto":
		id := c.PipeTo(ref, &vhUser{Payload: []byte{9}}, vivid.ActorRefs{fref}, time.Minute)
		n.pump()
		vrtYield()
		n.pump()
		got := 0
		for _, m := range fa.seen {
			if pr, ok := m.(*vivid.PipeResult); ok && pr.Id == id {
				got++
				r, isU := pr.Message.(*vhUser)
				vrtAssert(pr.Error == nil && isU && len(r.Payload) == 1 && r.Payload[0] == 10, "pipeto-forwards-the-reply")
			}
		}
		vrtAssert(got == 1, "pipeto-forwards-exactly-once")
	case "pipeto-fieldless":
		// the piped reply is a registered message without fields (its encoded body
		// is zero bytes): the forwarder still receives that message, not "nothing"
		id := c.PipeTo(ref, &vhUser{Payload: []byte{6}}, vivid.ActorRefs{fref}, time.Minute)
		n.pump()
		vrtYield()
		n.pump()
		got := 0
		for _, m := range fa.seen {
			if pr, ok := m.(*vivid.PipeResult); ok && pr.Id == id {
				got++
				_, isW := pr.Message.(*messages.WatchMessage)
				vrtAssert(pr.Error == nil && isW, "pipeto-forwards-the-reply")
			}
		}
		vrtAssert(got == 1, "pipeto-forwards-exactly-once")
	case "pipeto-failure":
		// the piped request fails (the local target answers with a plain error, or
		// nobody answers before the timeout); the forwarder - local or on the
		// other system - is told the FAILURE
		plain := vrtBool()
		var id string
		if plain {
			id = c.PipeTo(ref, &vhUser{Payload: []byte{8}}, vivid.ActorRefs{fref}, time.Minute)
			vrtReach("plain-error")
		} else {
			id = c.PipeTo(ref, &vhUser{Payload: []byte{7}}, vivid.ActorRefs{fref}, time.Minute)
			vrtReach("timeout")
		}
		n.pump()
		vrtYield()
		if !plain {
			vrtAdvance(2 * time.Minute)
			vrtYield()
		}
		n.pump()
		vrtYield()
		n.pump()
		got := 0
		for _, m := range fa.seen {
			if pr, ok := m.(*vivid.PipeResult); ok && pr.Id == id {
				got++
				vrtAssert(pr.Error != nil && pr.IsError(), "pipeto-forwards-the-failure")
				if !plain && pr.Error != nil {
					vrtAssert(errors.Is(pr.Error, vivid.ErrorFutureTimeout), "pipeto-forwards-the-failure")
				}
			}
		}
		vrtAssert(got == 1, "pipeto-forwards-exactly-once")
	}
	vrtAssert(n.undecoded == 0, "every-frame-decodes")
	vrtAssert(n.handleErrs == 0, "every-envelope-is-routable")
	if remote {
		vrtReach("remote")
	} else {
		vrtReach("local")
	}
}
