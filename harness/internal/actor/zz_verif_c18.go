//go:build verif

package actor

import (
	"context"
	"time"

	"github.com/kercylan98/vivid"
	"github.com/kercylan98/vivid/internal/cluster"
	"github.com/kercylan98/vivid/internal/guard"
	"github.com/kercylan98/vivid/internal/remoting"
	"github.com/kercylan98/vivid/internal/remoting/serialize"
	"github.com/kercylan98/vivid/internal/scheduler"
	"github.com/reugn/go-quartz/quartz"
)

// C18 — gossip on N LIVE systems (real System, real @cluster NodeActor with
// its real mailbox and consumer goroutine, real remoting mailbox + wire codec)
// joined by in-memory links. Timers are fired by the harness (fake go-quartz),
// time is the virtual clock (concretenow), rand.Shuffle is the identity.

type vhNode struct {
	addr   string
	sys    *System
	quartz *scheduler.VrtFakeQuartz
	node   *cluster.NodeActor
	wires  map[string]*remoting.VrtLiveWire
	up     bool
}

type vhCluster struct {
	nodes     []*vhNode
	undecoded int
	unrouted  int
}

func vhClusterOptions(id string, seeds []string) vivid.ClusterOptions {
	// the library's own defaults (NewClusterOptions), then the harness's choices
	return *vivid.NewClusterOptions(
		vivid.WithClusterNodeID(id),
		vivid.WithClusterName("c"),
		vivid.WithClusterSeeds(seeds),
		vivid.WithClusterDiscoveryInterval(time.Second),
		vivid.WithClusterFailureDetectionTimeout(4*time.Second),
	)
}

func (cl *vhCluster) startNode(i int, addr, id string, seeds []string) *vhNode {
	opts := vivid.NewActorSystemOptions()
	opts.RemotingAdvertiseAddress = addr
	sys := &System{
		options:           opts,
		futureAgents:      make(map[vivid.ActorPath]map[vivid.ActorPath]*AgentRef),
		guardClosedSignal: make(chan struct{}),
	}
	sys.options.Context, sys.cancel = context.WithCancel(context.Background())
	sys.eventStream = newEventStream(sys)
	q := scheduler.VrtNewFakeQuartz()
	sys.scheduler = scheduler.VrtNewScheduler(q)
	root, err := NewContext(sys, nil, guard.NewActor(sys.guardClosedSignal))
	vrtAssert(err == nil, "live-root-context")
	sys.Context = root
	sys.appendActorContext(root)
	sys.status = start
	srvRef, _ := NewRef(addr, "/@remoting")
	sys.remotingServer = remoting.VrtNewServer(addr, nil, sys, root, srvRef, sys.eventStream)
	n := &vhNode{addr: addr, sys: sys, quartz: q, wires: map[string]*remoting.VrtLiveWire{}, up: true}
	if i < len(cl.nodes) {
		cl.nodes[i] = n
	} else {
		cl.nodes = append(cl.nodes, n)
	}
	// links in both directions to every other node
	for _, o := range cl.nodes {
		if o == n || o == nil {
			continue
		}
		cl.link(n, o)
		cl.link(o, n)
	}
	n.node = cluster.NewNodeActor(addr, vhClusterOptions(id, seeds))
	_, err = sys.ActorOf(n.node, vivid.WithActorName("@cluster"))
	vrtAssert(err == nil, "cluster-actor-spawned")
	return n
}

func (cl *vhCluster) link(from, to *vhNode) {
	w := remoting.VrtLiveConnect(from.sys.remotingServer, to.addr, from.sys)
	w.Down = !to.up
	w.OnFrame = func(frame []byte) {
		if !to.up {
			return
		}
		s, sa, sp, ra, rp, msg, err := serialize.DecodeEnvelopWithRemoting(nil, frame)
		if err != nil {
			cl.undecoded++
			return
		}
		if err := to.sys.HandleRemotingEnvelop(s, sa, sp, ra, rp, msg); err != nil {
			cl.unrouted++
		}
	}
	from.wires[to.addr] = w
}

// crash: the node stops (its actor system is gone): nothing reaches it, it sends nothing, its timers stop.
func (cl *vhCluster) crash(n *vhNode) {
	n.up = false
	for _, o := range cl.nodes {
		if w := o.wires[n.addr]; w != nil {
			w.Down = true
		}
		if w := n.wires[o.addr]; w != nil {
			w.Down = true
		}
	}
}

func (n *vhNode) fire(ref string) bool {
	if !n.up {
		return false
	}
	return n.quartz.Fire("/@cluster:" + ref)
}

// round: every running node gossips once and runs failure detection once; time advances by dt.
func (cl *vhCluster) round(dt time.Duration) {
	vrtAdvance(dt)
	for _, n := range cl.nodes {
		n.fire(cluster.SchedRefGossip)
		vrtYield()
	}
	for _, n := range cl.nodes {
		if !n.fire(cluster.SchedRefFailureDetection) && n.up && vrtParam("debug", 0) == 1 {
			vrtNote("failure-detection job not registered at " + n.addr)
		}
		vrtYield()
	}
	vrtYield()
}

// snapshot describes every running node's view (diagnostics in the evidence notes).
func (cl *vhCluster) snapshot(tag string) {
	if vrtParam("debug", 0) == 0 {
		return
	}
	out := tag
	for _, n := range cl.nodes {
		if !n.up {
			continue
		}
		out += " | " + n.addr[len(n.addr)-1:] + ":"
		for _, id := range []string{"id1", "id2", "id3"} {
			if m, ok := cluster.VrtMembers(n.node)[id]; ok {
				age := (time.Now().UnixNano() - m.LastSeen) / int64(time.Second)
				out += " " + id + "(s" + string(rune('0'+int(m.Status))) + ",age" + string(rune('0'+int(age%10))) + ")"
			}
		}
	}
	vrtNote(out)
}

func (cl *vhCluster) sentTotal() int {
	t := 0
	for _, n := range cl.nodes {
		for _, w := range n.wires {
			t += w.Sent
		}
	}
	return t
}

// converged: every running node has exactly the running nodes as members, all
// compute the same leader, exactly one of them is that leader.
func (cl *vhCluster) assertConverged(ids []string, gens map[string]int) {
	want := map[string]bool{}
	for i, n := range cl.nodes {
		if n.up {
			want[ids[i]] = true
		}
	}
	leader := ""
	leaders := 0
	for i, n := range cl.nodes {
		if !n.up {
			continue
		}
		ms := cluster.VrtMembers(n.node)
		for id := range want {
			m, ok := ms[id]
			vrtAssert(ok && m != nil, "running-node-known-to-all")
			if ok && m != nil && gens != nil {
				if g, has := gens[id]; has {
					vrtAssert(m.Generation >= g, "restarted-node-replaces-its-previous-incarnation")
				}
			}
			if ok && m != nil {
				// the record every node holds of a running node is that node's running incarnation
				for j, o := range cl.nodes {
					if o.up && ids[j] == id {
						self := cluster.VrtSelf(o.node)
						vrtAssert(m.Generation == self.Generation && m.Timestamp == self.Timestamp && m.Address == o.addr, "every-view-holds-the-running-incarnation")
					}
				}
			}
		}
		for id := range ms {
			vrtAssert(want[id], "crashed-or-left-node-absent-from-every-view")
		}
		l := cluster.ComputeLeaderAddr(cluster.VrtView(n.node))
		if leader == "" {
			leader = l
		}
		vrtAssert(l == leader && l != "", "all-nodes-compute-the-same-leader")
		if l == n.addr {
			leaders++
		}
		_ = i
	}
	vrtAssert(leaders == 1, "exactly-one-node-considers-itself-leader")
}

// VH_C18_converge: N nodes join through the seed; optionally one crashes (and
// optionally restarts). After the faults stop, a bounded number of gossip /
// failure-detection rounds brings every running node to the same membership and
// leader, and a further round announces nothing new.
func VH_C18_converge() {
	n := int(vrtParam("nodes", 3))
	addrs := []string{"127.0.0.1:7001", "127.0.0.1:7002", "127.0.0.1:7003"}[:n]
	ids := []string{"id1", "id2", "id3"}[:n]
	seeds := []string{addrs[0]}
	cl := &vhCluster{}
	for i := 0; i < n; i++ {
		cl.startNode(i, addrs[i], ids[i], seeds)
		vrtYield()
	}
	for r := 0; r < 3; r++ {
		cl.round(time.Second)
	}
	cl.assertConverged(ids, nil)
	vrtReach("joined-and-converged")
	// a quiet period: nothing happens but the periodic ticks; a healthy cluster
	// stays as it is (no member is dropped, no leader change)
	for r := 0; r < int(vrtParam("quiet", 0)); r++ {
		cl.round(time.Second)
		cl.assertConverged(ids, nil)
	}

	fault := vrtChoose(int(vrtParam("faults", 3))) // 0 none, 1 a non-seed node crashes, 2 it crashes and restarts after detection, 3 it restarts at once
	var gens map[string]int
	if fault >= 1 {
		v := 1 + vrtChoose(n-1) // the victim: any non-seed node
		oldGen := cluster.VrtSelf(cl.nodes[v].node).Generation
		cl.crash(cl.nodes[v])
		// the survivors keep gossiping; the victim's silence exceeds the detection timeout
		rounds := int(vrtParam("crashrounds", 8))
		if fault == 3 {
			rounds = 1 // a quick restart: the others still hold the previous incarnation's record
			vrtReach("quick-restart")
		}
		for r := 0; r < rounds; r++ {
			cl.round(time.Second)
			cl.snapshot("after-crash-round")
		}
		if fault == 1 {
			vrtReach("crashed")
		} else {
			cl.startNode(v, addrs[v], ids[v], seeds)
			vrtYield()
			for r := 0; r < 4; r++ {
				cl.round(time.Second)
			}
			gens = map[string]int{ids[v]: oldGen}
			vrtReach("restarted")
		}
	}
	cl.assertConverged(ids, gens)
	// quiescent: further rounds change nothing
	before := map[string]int{}
	for i, nd := range cl.nodes {
		if nd.up {
			before[ids[i]] = len(cluster.VrtMembers(nd.node))
		}
	}
	cl.round(time.Second)
	cl.round(time.Second)
	cl.assertConverged(ids, gens)
	vrtAssert(cl.undecoded == 0, "every-frame-decodes")
	vrtReach("stable")
}

// VH_C07_clustered_stop: a cluster-enabled system (one live node, its own
// seed) is shut down by Stop() or by cancelling the context it was created
// with. stop() first leaves the cluster (blocking until the node actor reports
// the leave completed), then terminates the tree. With a cancelled context the
// system's scheduler no longer fires anything, so the leave must not depend on
// a timer; with Stop() timers keep firing. Either way the shutdown completes:
// nobody blocks forever, the root terminates, the call returns nil.
func VH_C07_clustered_stop() {
	cl := &vhCluster{}
	// the node is either Up (its own seed) or still Joining (its only seed is
	// an address nobody listens on): Stop must complete in both states
	seeds := []string{"127.0.0.1:7001"}
	if vrtBool() {
		seeds = []string{"127.0.0.1:7009"}
		vrtReach("stop-while-joining")
	}
	n := cl.startNode(0, "127.0.0.1:7001", "id1", seeds)
	vrtYield()
	sys := n.sys
	clusterRef, err := NewRef("127.0.0.1:7001", "/@cluster")
	vrtAssert(err == nil, "setup")
	sys.clusterContext = cluster.NewContext(sys, clusterRef, nil)
	cancelled := 0
	realCancel := sys.cancel
	sys.cancel = func() { cancelled++; realCancel() }
	byCancel := vrtBool()
	if byCancel {
		sys.cancel()
		err = sys.stop(false) // what the guardian goroutine of Start() does
		vrtReach("by-context-cancel")
	} else {
		// the scheduler is alive: pending run-once jobs fire while Stop waits
		go func() {
			for i := 0; i < 20; i++ {
				vrtYield()
				for _, k := range append([]string{}, n.quartz.Order...) {
					if _, once := n.quartz.Triggers[k].(*quartz.RunOnceTrigger); once {
						n.quartz.Fire(k)
					}
				}
			}
		}()
		err = sys.Stop(time.Minute)
		vrtReach("by-stop")
	}
	vrtAssert(err == nil, "shutdown-completes")
	select {
	case <-sys.guardClosedSignal:
	default:
		vrtAssert(false, "shutdown-terminates-the-root")
	}
	vrtAssert(sys.status == stop, "status-is-stopped")
	vrtAssert(n.quartz.Stopped, "scheduler-stopped")
}

// VH_C18_islands: two groups that do not know each other yet. s2 (seeds s1 and
// s2; s1 is not up) bootstraps and b2 joins through it; then s1 (its own seed)
// starts. No fault is involved: the configured seed address is the only path
// between the groups. After a bounded number of rounds all three hold the same
// membership and agree on one leader.
func VH_C18_islands() {
	a1, a2, a3 := "127.0.0.1:7001", "127.0.0.1:7002", "127.0.0.1:7003"
	ids := []string{"id1", "id2", "id3"}
	cl := &vhCluster{nodes: []*vhNode{nil, nil, nil}}
	cl.startNode(1, a2, "id2", []string{a1, a2})
	vrtYield()
	cl.startNode(2, a3, "id3", []string{a2})
	vrtYield()
	run := func(n int) {
		for r := 0; r < n; r++ {
			vrtAdvance(time.Second)
			for _, nd := range cl.nodes {
				if nd != nil {
					nd.fire(cluster.SchedRefGossip)
					vrtYield()
				}
			}
			vrtYield()
		}
	}
	run(2)
	cl.startNode(0, a1, "id1", []string{a1})
	vrtYield()
	run(4)
	cl.assertConverged(ids, nil)
	vrtReach("islands-merged")
}
