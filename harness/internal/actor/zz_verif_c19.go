//go:build verif

package actor

import (
	"sync"

	"github.com/kercylan98/vivid"
)

// C19 — event stream: table semantics against a reference set.

// VH_C19_tables: a symbolic sequence of Subscribe / Unsubscribe /
// UnsubscribeAll / Publish over 2 subscribers x 2 event types against a
// reference set of (type, subscriber) pairs; after every operation both tables
// are consistent and equal to the reference; Publish tells exactly the current
// subscribers of that type, once each.
func VH_C19_tables() {
	w := vhNewWorld()
	subs := []*Context{
		w.spawn(w.root, "s0", &vhActor{name: "s0"}),
		w.spawn(w.root, "s1", &vhActor{name: "s1"}),
	}
	pub := w.spawn(w.root, "pub", &vhActor{name: "pub"})
	es := w.sys.eventStream.(*eventStream)
	var ref [2][2]bool // [type][subscriber]
	events := []vivid.Message{vhEvtA{}, vhEvtB{}}
	L := vrtParam("ops", 4)
	seq := 0
	for i := 0; i < L; i++ {
		op := vrtChoose(4)
		s := vrtChoose(2)
		t := vrtChoose(2)
		switch op {
		case 0:
			if ref[t][s] {
				vrtReach("double-subscribe")
			}
			es.Subscribe(subs[s], events[t])
			ref[t][s] = true
		case 1:
			if !ref[t][s] {
				vrtReach("unsubscribe-not-subscribed")
			}
			es.Unsubscribe(subs[s], events[t])
			ref[t][s] = false
			if !ref[0][s] && !ref[1][s] {
				vrtReach("last-type-of-subscriber-removed")
			}
		case 2:
			es.UnsubscribeAll(subs[s])
			ref[0][s], ref[1][s] = false, false
		case 3:
			seq++
			var ev vivid.Message
			if t == 0 {
				ev = vhEvtA{N: seq}
			} else {
				ev = vhEvtB{N: seq}
			}
			before := [2]int{len(w.boxes[subs[0]].all), len(w.boxes[subs[1]].all)}
			pubBefore := len(w.boxes[pub].all)
			rootBefore := len(w.rootBox.all)
			es.Publish(pub, ev)
			for k := 0; k < 2; k++ {
				got := len(w.boxes[subs[k]].all) - before[k]
				if ref[t][k] {
					vrtAssert(got == 1, "publish-delivers-once-to-each-current-subscriber")
					e := w.boxes[subs[k]].all[len(w.boxes[subs[k]].all)-1]
					vrtAssert(!e.System(), "event-goes-through-user-mailbox")
					if t == 0 {
						m, ok := e.Message().(vhEvtA)
						vrtAssert(ok && m.N == seq, "delivered-event-is-the-published-one")
					} else {
						m, ok := e.Message().(vhEvtB)
						vrtAssert(ok && m.N == seq, "delivered-event-is-the-published-one")
					}
					vrtReach("delivered")
				} else {
					vrtAssert(got == 0, "publish-delivers-to-nobody-else")
				}
			}
			vrtAssert(len(w.boxes[pub].all) == pubBefore && len(w.rootBox.all) == rootBefore, "publish-delivers-to-nobody-else")
			if !ref[t][0] && !ref[t][1] {
				vrtReach("publish-with-no-subscriber")
			}
		}
		// table consistency against the reference
		for tt := 0; tt < 2; tt++ {
			for ss := 0; ss < 2; ss++ {
				path := subs[ss].ref.GetPath()
				_, in1 := es.subscribers[reflectTypeOf(events[tt])][path]
				_, in2 := es.subscriberTypes[path][reflectTypeOf(events[tt])]
				vrtAssert(in1 == ref[tt][ss], "subscribers-table-matches-reference")
				vrtAssert(in2 == ref[tt][ss], "subscriber-types-table-matches-reference")
			}
		}
		for ss := 0; ss < 2; ss++ {
			if !ref[0][ss] && !ref[1][ss] {
				_, stale := es.subscriberTypes[subs[ss].ref.GetPath()]
				vrtAssert(!stale, "no-stale-entry-for-unsubscribed")
			}
		}
	}
}

// VH_C19_termination: a terminated subscriber is removed from the stream and a
// later publish does not reach it (nor produce a dead letter); a restarted
// subscriber keeps its subscriptions.
func VH_C19_termination() {
	w := vhNewWorld()
	a := &vhActor{name: "s0"}
	s := w.spawn(w.root, "s0", a)
	pub := w.spawn(w.root, "pub", &vhActor{name: "pub"})
	es := w.sys.eventStream.(*eventStream)
	es.Subscribe(s, vhEvtA{})
	es.Subscribe(s, vhEvtB{})
	restart := vrtChoose(2) == 1
	if restart {
		w.root.tell(true, s.ref, &RestartMessage{Reason: "test", Poison: vrtBool()})
		w.run(50, "restart-terminates")
		vrtAssert(s.state == running && s.restarting == nil, "restart-completed")
		_, still := es.subscriberTypes[s.ref.GetPath()]
		vrtAssert(still, "restart-keeps-subscriptions")
		n := len(w.boxes[s].all)
		es.Publish(pub, vhEvtA{N: 1})
		vrtAssert(len(w.boxes[s].all) == n+1, "restart-keeps-subscriptions")
		vrtReach("restarted")
		return
	}
	w.root.Kill(s.ref, vrtBool(), "test")
	w.run(50, "kill-terminates")
	vrtAssert(s.state == killed, "kill-completed")
	_, stale := es.subscriberTypes[s.ref.GetPath()]
	vrtAssert(!stale, "terminated-subscriber-has-no-entry")
	for _, m := range es.subscribers {
		_, in := m[s.ref.GetPath()]
		vrtAssert(!in, "terminated-subscriber-has-no-entry")
	}
	n := len(w.boxes[s].all)
	root := len(w.rootBox.all)
	es.Publish(pub, vhEvtA{N: 2})
	w.run(50, "publish-terminates")
	vrtAssert(len(w.boxes[s].all) == n, "no-delivery-after-termination")
	vrtAssert(len(w.rootBox.all) == root, "no-dead-letter-for-event-after-termination")
	vrtReach("terminated")
}

// VH_C19_concurrent: event-stream operations of DIFFERENT actors racing each
// other (Engine A, preemptive mode + race detector). After every call has
// returned, the tables are consistent, every actor whose Subscribe returned
// (and that did not unsubscribe) receives the next published event exactly
// once, and an actor whose UnsubscribeAll returned receives nothing and has no
// entry left.
func VH_C19_concurrent() {
	w := vhNewWorld()
	s0 := w.spawn(w.root, "s0", &vhActor{name: "s0"})
	s1 := w.spawn(w.root, "s1", &vhActor{name: "s1"})
	pub := w.spawn(w.root, "pub", &vhActor{name: "pub"})
	es := w.sys.eventStream.(*eventStream)
	var wg sync.WaitGroup
	run := func(f func()) {
		wg.Add(1)
		go func() {
			f()
			wg.Done()
		}()
	}
	want0, want1 := false, false
	switch vrtParam("variant", 0) {
	case 0: // the first two subscribers of a type arrive together
		run(func() { es.Subscribe(s0, vhEvtA{}) })
		run(func() { es.Subscribe(s1, vhEvtA{}) })
		want0, want1 = true, true
	case 1: // a Subscribe while the type's last subscriber leaves
		es.Subscribe(s1, vhEvtA{})
		run(func() { es.Subscribe(s0, vhEvtA{}) })
		run(func() { es.UnsubscribeAll(s1) })
		want0, want1 = true, false
	case 2: // a Subscribe while the type's last subscriber unsubscribes from that type
		es.Subscribe(s1, vhEvtA{})
		es.Subscribe(s1, vhEvtB{})
		run(func() { es.Subscribe(s0, vhEvtA{}) })
		run(func() { es.Unsubscribe(s1, vhEvtA{}) })
		want0, want1 = true, false
	case 3: // subscribing to two types from two goroutines (same subscriber entry)
		run(func() { es.Subscribe(s0, vhEvtA{}) })
		run(func() { es.Subscribe(s0, vhEvtB{}) })
		run(func() { es.Subscribe(s1, vhEvtA{}) })
		want0, want1 = true, true
	case 4: // two publishers of different types at the same time
		es.Subscribe(s0, vhEvtA{})
		es.Subscribe(s1, vhEvtB{})
		// recording boxes are not goroutine-safe: each publisher tells a different box
		run(func() { es.Publish(pub, vhEvtA{N: 1}) })
		run(func() { es.Publish(pub, vhEvtB{N: 2}) })
		wg.Wait()
		vrtRaceOff()
		na, nb, wrongA, wrongB := 0, 0, 0, 0
		for _, e := range w.boxes[s0].all {
			if m, ok := e.Message().(vhEvtA); ok && m.N == 1 {
				na++
			} else if _, ok := e.Message().(vhEvtB); ok {
				wrongA++
			}
		}
		for _, e := range w.boxes[s1].all {
			if m, ok := e.Message().(vhEvtB); ok && m.N == 2 {
				nb++
			} else if _, ok := e.Message().(vhEvtA); ok {
				wrongB++
			}
		}
		vrtAssert(na == 1 && nb == 1, "publish-delivers-once-to-each-current-subscriber")
		vrtAssert(wrongA == 0 && wrongB == 0, "publish-delivers-to-nobody-else")
		vrtReach("joined")
		return
	}
	wg.Wait()
	vrtRaceOff()
	b0, b1 := len(w.boxes[s0].all), len(w.boxes[s1].all)
	es.Publish(pub, vhEvtA{N: 7})
	g0, g1 := len(w.boxes[s0].all)-b0, len(w.boxes[s1].all)-b1
	if want0 {
		vrtAssert(g0 == 1, "publish-delivers-once-to-each-current-subscriber")
	} else {
		vrtAssert(g0 == 0, "publish-delivers-to-nobody-else")
	}
	if want1 {
		vrtAssert(g1 == 1, "publish-delivers-once-to-each-current-subscriber")
	} else {
		vrtAssert(g1 == 0, "publish-delivers-to-nobody-else")
	}
	ta := reflectTypeOf(vhEvtA{})
	for i, sc := range []*Context{s0, s1} {
		want := []bool{want0, want1}[i]
		_, in1 := es.subscribers[ta][sc.ref.GetPath()]
		_, in2 := es.subscriberTypes[sc.ref.GetPath()][ta]
		vrtAssert(in1 == want, "subscribers-table-matches-reference")
		vrtAssert(in2 == want, "subscriber-types-table-matches-reference")
	}
	vrtReach("joined")
}

// VH_C19_many_subscribers: an event type with many subscribers (more than any
// plausible pre-sized buffer): each gets the event exactly once, a type with
// none delivers nothing, and after half of them left, exactly the others get
// the next event.
func VH_C19_many_subscribers() {
	w := vhNewWorld()
	n := []int{9, 64, 65, 100}[vrtChoose(4)]
	pub := w.spawn(w.root, "pub", &vhActor{name: "pub"})
	es := w.sys.eventStream.(*eventStream)
	var subs []*Context
	for i := 0; i < n; i++ {
		s := w.spawn(w.root, "s"+string(rune('a'+i/26))+string(rune('a'+i%26)), &vhActor{name: "s"})
		subs = append(subs, s)
		es.Subscribe(s, vhEvtA{})
	}
	es.Publish(pub, vhEvtA{N: 1})
	for _, s := range subs {
		vrtAssert(len(w.boxes[s].all) == 1, "publish-delivers-once-to-each-current-subscriber")
	}
	es.Publish(pub, vhEvtB{N: 2})
	for _, s := range subs {
		vrtAssert(len(w.boxes[s].all) == 1, "publish-delivers-to-nobody-else")
	}
	for i, s := range subs {
		if i%2 == 0 {
			if i%4 == 0 {
				es.UnsubscribeAll(s)
			} else {
				es.Unsubscribe(s, vhEvtA{})
			}
		}
	}
	es.Publish(pub, vhEvtA{N: 3})
	for i, s := range subs {
		want := 1
		if i%2 == 1 {
			want = 2
		}
		vrtAssert(len(w.boxes[s].all) == want, "publish-delivers-once-to-each-current-subscriber")
	}
	vrtAssert(len(w.boxes[pub].all) == 0, "publish-delivers-to-nobody-else")
	vrtReach("many-subscribers")
}
