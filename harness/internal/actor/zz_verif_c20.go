//go:build verif

package actor

import (
	"errors"
	"time"

	"github.com/kercylan98/vivid"
	"github.com/reugn/go-quartz/quartz"
)

// C20 — scheduler bookkeeping and delivery path (firing instants are trusted to
// go-quartz and NOT decided here).

// VH_C20_bookkeeping: a symbolic sequence of Once / Loop / Cancel / Clear on two
// actors sharing references against a reference set; a fired job delivers the
// original message through the receiver's mailbox; cancelled / cleared jobs are
// gone from the underlying scheduler; termination and restart clear the jobs.
func VH_C20_bookkeeping() {
	w := vhNewWorld()
	aa, ab := vhLogged("a"), vhLogged("b")
	a := w.spawn(w.root, "a", aa)
	b := w.spawn(w.root, "a1", ab) // its path has the other owner's path as a string prefix
	refs := []string{"r1", "r2"}
	owners := []*Context{a, b}
	var live [2][2]bool // [owner][ref]
	var once [2][2]bool // the live job is a run-once job
	var liveN [2][2]int // payload of the live job (the FIRST one armed under a reference stays while it is pending)
	L := vrtParam("ops", 3)
	for i := 0; i < L; i++ {
		o, r := vrtChoose(2), vrtChoose(2)
		owner := owners[o]
		key := owner.ref.GetPath() + ":" + refs[r]
		switch vrtChoose(4) {
		case 0:
			d := time.Duration(vrtInt64())
			vrtAssume(d >= 0)
			msg := &vhUserMsg{N: 100*(i+1) + 10*o + r}
			was := live[o][r]
			_ = owner.scheduler.Once(b.ref, d, msg, vivid.WithSchedulerReference(refs[r]))
			if !was {
				live[o][r], once[o][r], liveN[o][r] = true, true, msg.N
				tr, ok := w.quartz.Triggers[key].(*quartz.RunOnceTrigger)
				vrtAssert(ok && tr.Delay == d, "once-registers-run-once-trigger-with-the-delay")
			} else {
				// the reference is still pending: go-quartz keeps the earlier job;
				// whatever vivid returns, the earlier job must stay reachable
				vrtReach("rearmed-while-pending")
			}
			vrtReach("once")
		case 1:
			d := time.Duration(vrtInt64())
			vrtAssume(d > 0)
			msg := &vhUserMsg{N: 100*(i+1) + 10*o + r}
			was := live[o][r]
			_ = owner.scheduler.Loop(b.ref, d, msg, vivid.WithSchedulerReference(refs[r]))
			if !was {
				live[o][r], once[o][r], liveN[o][r] = true, false, msg.N
				tr, ok := w.quartz.Triggers[key].(*quartz.SimpleTrigger)
				vrtAssert(ok && tr.Interval == d, "loop-registers-simple-trigger-with-the-interval")
			} else {
				vrtReach("rearmed-while-pending")
			}
			vrtReach("loop")
		case 2:
			err := owner.scheduler.Cancel(refs[r])
			if live[o][r] {
				vrtAssert(err == nil, "cancel-known-ok")
				vrtReach("cancel")
			} else {
				vrtAssert(errors.Is(err, vivid.ErrorNotFound), "cancel-unknown-is-not-found")
				vrtReach("cancel-unknown")
			}
			live[o][r] = false
		case 3:
			owner.scheduler.Clear()
			live[o][0], live[o][1] = false, false
			vrtReach("clear")
		}
		// bookkeeping against the reference
		for oo := 0; oo < 2; oo++ {
			for rr := 0; rr < 2; rr++ {
				k := owners[oo].ref.GetPath() + ":" + refs[rr]
				_, inQuartz := w.quartz.Jobs[k]
				vrtAssert(inQuartz == live[oo][rr], "underlying-scheduler-holds-exactly-the-live-jobs")
				vrtAssert(owners[oo].scheduler.Exists(refs[rr]) == live[oo][rr], "exists-matches-live-jobs")
			}
		}
	}
	// firing, two instants in a row: every live job delivers its own original
	// message to b through b's mailbox; a run-once job fires at the first instant
	// only, a loop job at every instant
	for round := 0; round < 2; round++ {
		for oo := 0; oo < 2; oo++ {
			for rr := 0; rr < 2; rr++ {
				k := owners[oo].ref.GetPath() + ":" + refs[rr]
				before := len(w.boxes[b].all)
				seenBefore := len(ab.seen)
				fired := w.quartz.Fire(k)
				vrtAssert(fired == live[oo][rr], "only-live-jobs-can-fire")
				if fired {
					vrtAssert(len(w.boxes[b].all) == before+1, "fired-job-goes-through-the-mailbox")
					w.run(50, "fire")
					vrtAssert(len(ab.seen) == seenBefore+1, "fired-job-delivers-once")
					u, ok := ab.seen[len(ab.seen)-1].(*vhUserMsg)
					vrtAssert(ok && u.N == liveN[oo][rr], "fired-job-carries-the-original-message")
					vrtReach("fired")
					if once[oo][rr] {
						live[oo][rr] = false // expired with its only firing
						vrtReach("once-expired")
					} else if round == 1 {
						vrtReach("loop-fired-again")
					}
				} else {
					vrtAssert(len(w.boxes[b].all) == before && len(w.rootBox.all) >= 0, "dead-job-delivers-nothing")
				}
			}
		}
	}
	// a reference whose run-once job has fired is free again: scheduling under
	// it registers a new job that fires and delivers its own message
	for oo := 0; oo < 2; oo++ {
		for rr := 0; rr < 2; rr++ {
			if once[oo][rr] && !live[oo][rr] && liveN[oo][rr] != 0 {
				k := owners[oo].ref.GetPath() + ":" + refs[rr]
				msg := &vhUserMsg{N: 7000 + 10*oo + rr}
				vrtAssert(owners[oo].scheduler.Once(b.ref, time.Second, msg, vivid.WithSchedulerReference(refs[rr])) == nil, "once-ok")
				_, inQuartz := w.quartz.Jobs[k]
				vrtAssert(inQuartz, "reference-reusable-after-its-once-fired")
				seenBefore := len(ab.seen)
				vrtAssert(w.quartz.Fire(k), "reference-reusable-after-its-once-fired")
				w.run(50, "fire")
				vrtAssert(len(ab.seen) == seenBefore+1, "fired-job-delivers-once")
				u, ok := ab.seen[len(ab.seen)-1].(*vhUserMsg)
				vrtAssert(ok && u.N == msg.N, "fired-job-carries-the-original-message")
				vrtReach("rearmed-after-firing")
			}
		}
	}
	// termination / restart of the owner clears its jobs
	if vrtChoose(2) == 0 {
		w.root.Kill(a.ref, false, "x")
	} else {
		w.root.tell(true, a.ref, &RestartMessage{Reason: "r"})
		vrtReach("restart")
	}
	w.run(200, "terminates")
	for rr := 0; rr < 2; rr++ {
		_, inQuartz := w.quartz.Jobs[a.ref.GetPath()+":"+refs[rr]]
		vrtAssert(!inQuartz, "termination-or-restart-clears-the-owners-jobs")
		vrtAssert(!a.scheduler.Exists(refs[rr]), "termination-or-restart-clears-the-owners-jobs")
		// the other owner's jobs under the same reference survive
		_, other := w.quartz.Jobs[b.ref.GetPath()+":"+refs[rr]]
		vrtAssert(other == live[1][rr], "other-actors-jobs-untouched")
	}
}

// VH_C20_cron: an invalid cron expression is rejected with the parse error and
// schedules nothing; a valid one registers a job.
func VH_C20_cron() {
	w := vhNewWorld()
	a := w.spawn(w.root, "a", vhLogged("a"))
	bad := []string{"", "not a cron", "* * *", "61 * * * * *", "* * * * * * * *"}
	k := vrtChoose(len(bad) + 1)
	if k < len(bad) {
		err := a.scheduler.Cron(a.ref, bad[k], &vhUserMsg{}, vivid.WithSchedulerReference("c"))
		vrtAssert(err != nil, "invalid-cron-is-rejected")
		vrtAssert(errors.Is(err, vivid.ErrorCronParse), "invalid-cron-is-a-parse-error")
		vrtAssert(len(w.quartz.Jobs) == 0 && !a.scheduler.Exists("c"), "invalid-cron-schedules-nothing")
		vrtReach("rejected")
	} else {
		err := a.scheduler.Cron(a.ref, "0 0 * * * *", &vhUserMsg{}, vivid.WithSchedulerReference("c"))
		vrtAssert(err == nil && len(w.quartz.Jobs) == 1, "valid-cron-registers")
		vrtReach("accepted")
	}
}

// VH_C20_schedule_while_stopping: jobs registered while the owner is already
// in its kill / restart sequence (from its OnKill handler, or while handling a
// child's OnKilled) die with the actor like any other job.
func VH_C20_schedule_while_stopping() {
	w := vhNewWorld()
	ab := vhLogged("b")
	b := w.spawn(w.root, "b", ab)
	aa := vhLogged("a")
	site := vrtChoose(2)
	inner := aa.onMsg
	aa.onMsg = func(ctx vivid.ActorContext, m vivid.Message) {
		inner(ctx, m)
		arm := false
		switch k := m.(type) {
		case *vivid.OnKill:
			arm = site == 0
		case *vivid.OnKilled:
			arm = site == 1 && !k.Ref.Equals(ctx.Ref())
		}
		if arm {
			_ = ctx.Scheduler().Once(b.ref, time.Second, &vhUserMsg{N: 1}, vivid.WithSchedulerReference("k1"))
			_ = ctx.Scheduler().Loop(b.ref, time.Second, &vhUserMsg{N: 2}, vivid.WithSchedulerReference("k2"))
			vrtReach("armed-while-stopping")
		}
	}
	a := w.spawn(w.root, "a", aa)
	w.spawn(a, "kid", vhLogged("kid"))
	if vrtChoose(2) == 0 {
		w.root.Kill(a.ref, vrtBool(), "x")
		vrtReach("kill")
	} else {
		w.root.tell(true, a.ref, &RestartMessage{Reason: "r", Poison: vrtBool()})
		vrtReach("restart")
	}
	w.run(400, "terminates")
	for _, r := range []string{"k1", "k2"} {
		key := a.ref.GetPath() + ":" + r
		_, inQuartz := w.quartz.Jobs[key]
		vrtAssert(!inQuartz, "jobs-armed-while-stopping-die-with-the-actor")
		before := len(w.boxes[b].all)
		w.quartz.Fire(key)
		vrtAssert(len(w.boxes[b].all) == before, "nothing-fires-after-termination-or-restart")
	}
	vrtAssert(len(w.quartz.Jobs) == 0, "jobs-armed-while-stopping-die-with-the-actor")
}
