//go:build verif

package actor

import (
	"time"

	"github.com/kercylan98/vivid"
	"github.com/kercylan98/vivid/internal/mailbox"
	"github.com/kercylan98/vivid/pkg/ves"
)

// C05 / C06 — lifecycle order and kill cascades, as transition-level lemmas on
// the harness-built world (zz_verif_world.go). One deterministic delivery
// schedule (creation order, system first); schedules are NOT quantified here.

type vhUserMsg struct{ N int }

// vhLogEntry is one behaviour invocation in global order.
type vhLogEntry struct {
	who string
	msg vivid.Message
}

var vhLog []vhLogEntry

func vhLogged(name string) *vhActor {
	a := &vhActor{name: name}
	a.onMsg = func(ctx vivid.ActorContext, m vivid.Message) { vhLog = append(vhLog, vhLogEntry{name, m}) }
	return a
}

func vhIndexOf(who string, pred func(m vivid.Message) bool) int {
	for i, e := range vhLog {
		if e.who == who && pred(e.msg) {
			return i
		}
	}
	return -1
}

func vhIsOwnKilled(ref vivid.ActorRef) func(m vivid.Message) bool {
	return func(m vivid.Message) bool {
		k, ok := m.(*vivid.OnKilled)
		return ok && k.Ref.Equals(ref)
	}
}

func vhIsKill(m vivid.Message) bool { _, ok := m.(*vivid.OnKill); return ok }

func vhCountEnv(box *vhBox, pred func(e vivid.Envelop) bool) int {
	n := 0
	for _, e := range box.all {
		if pred(e) {
			n++
		}
	}
	return n
}

// VH_C06_kill_subtree: p with 0..2 children (one with a grandchild), 0..2
// watchers, an event subscription and a scheduled job is killed (poison
// symbolic), optionally twice; run to quiescence.
func VH_C06_kill_subtree() {
	vhLog = nil
	w := vhNewWorld()
	rec := w.spawn(w.root, "rec", &vhActor{name: "rec"})
	es := w.sys.eventStream.(*eventStream)
	es.Subscribe(rec, ves.ActorKilledEvent{})
	pa := vhLogged("p")
	p := w.spawn(w.root, "p", pa)
	nch := vrtChoose(3)
	var kids []*Context
	var kidActors []*vhActor
	for i := 0; i < nch; i++ {
		a := vhLogged([]string{"c0", "c1"}[i])
		kids = append(kids, w.spawn(p, a.name, a))
		kidActors = append(kidActors, a)
	}
	var grand *Context
	if nch > 0 && vrtChoose(2) == 1 {
		grand = w.spawn(kids[0], "g", vhLogged("g"))
		vrtReach("grandchild")
	}
	nw := vrtChoose(3)
	var watchers []*Context
	for i := 0; i < nw; i++ {
		wc := w.spawn(w.root, []string{"w0", "w1"}[i], &vhActor{name: "w"})
		watchers = append(watchers, wc)
		wc.Watch(p.ref)
		if vrtChoose(2) == 1 {
			wc.Watch(p.ref) // watching twice must not double the notice
			vrtReach("double-watch")
		}
	}
	es.Subscribe(p, vhEvtA{})
	if vrtChoose(2) == 1 {
		// a second subscription, and the first one given up again while p is that
		// type's only subscriber: the remaining subscription must still go at termination
		es.Subscribe(p, vhEvtB{})
		es.Unsubscribe(p, vhEvtA{})
		vrtReach("unsubscribed-one-of-two")
	}
	vrtAssert(p.scheduler.Once(p.ref, time.Second, &vhUserMsg{N: 9}, vivid.WithSchedulerReference("job")) == nil, "schedule-ok")
	if vrtChoose(2) == 1 {
		// the same reference armed again while its job is pending (the scheduler
		// library refuses the duplicate): the pending job must still die with the actor
		_ = p.scheduler.Loop(p.ref, time.Second, &vhUserMsg{N: 10}, vivid.WithSchedulerReference("job"))
		vrtReach("rearmed-while-pending")
	}
	w.run(100, "setup-terminates")

	// at the instant an actor is reported terminated (a notice or the event is
	// handed to a mailbox) its path is already released and its descendants
	// have all been reported
	earlyNotice, stillRegistered := 0, 0
	vhOnEnqueue = func(b *vhBox, e vivid.Envelop) {
		var who vivid.ActorRef
		switch m := e.Message().(type) {
		case *vivid.OnKilled:
			if e.Receiver() != nil && m.Ref != nil && !m.Ref.Equals(e.Receiver()) {
				who = m.Ref // a notice to somebody else, not the actor's own last message
			}
		case ves.ActorKilledEvent:
			who = m.ActorRef
		}
		if who == nil {
			return
		}
		if _, ok := w.sys.actorContexts.Load(who.GetPath()); ok {
			stillRegistered++
		}
		for c := range w.boxes {
			if c.parent != nil && c.parent.Equals(who) && c.state != killed {
				earlyNotice++
			}
		}
	}
	defer func() { vhOnEnqueue = nil }()
	if nch > 0 && vrtChoose(2) == 1 {
		// a spawn under a name that a live child holds is rejected and changes nothing
		_, err := p.ActorOf(&vhActor{name: "dup"}, vivid.WithActorName(kidActors[0].name))
		vrtAssert(err != nil, "duplicate-name-spawn-is-rejected")
		_, still := p.children[kids[0].ref.GetPath()]
		vrtAssert(still, "rejected-spawn-leaves-the-live-child-registered")
		reg, ok := w.sys.actorContexts.Load(kids[0].ref.GetPath())
		vrtAssert(ok && reg == any(kids[0]), "rejected-spawn-leaves-the-live-child-registered")
		vrtReach("rejected-duplicate-spawn")
	}
	poison := vrtBool()
	p.TellSelf(&vhUserMsg{N: 1}) // user mail queued before the kill
	w.root.Kill(p.ref, poison, "first")
	repeat := vrtChoose(3)
	if repeat == 1 {
		w.root.Kill(p.ref, poison, "again")
		vrtReach("repeated-kill-queued")
	}
	w.run(400, "kill-terminates")
	if repeat == 2 {
		w.root.Kill(p.ref, vrtBool(), "after-death")
		w.run(400, "kill-terminates")
		vrtReach("kill-after-death")
	}

	// terminated: the whole subtree
	vrtAssert(p.state == killed, "target-terminated")
	for _, k := range kids {
		vrtAssert(k.state == killed, "descendants-terminated")
	}
	if grand != nil {
		vrtAssert(grand.state == killed, "descendants-terminated")
	}
	// children first
	own := vhIndexOf("p", vhIsOwnKilled(p.ref))
	vrtAssert(own >= 0, "target-sees-own-onkilled")
	for i, k := range kids {
		ci := vhIndexOf(kidActors[i].name, vhIsOwnKilled(k.ref))
		vrtAssert(ci >= 0 && ci < own, "children-terminate-before-parent")
	}
	if grand != nil {
		gi := vhIndexOf("g", vhIsOwnKilled(grand.ref))
		c0 := vhIndexOf("c0", vhIsOwnKilled(kids[0].ref))
		vrtAssert(gi >= 0 && gi < c0, "children-terminate-before-parent")
	}
	// exactly once: OnKill, own OnKilled, nothing after it
	nKill, nOwn, after := 0, 0, 0
	for _, m := range pa.seen {
		if nOwn > 0 {
			after++
		}
		if vhIsKill(m) {
			nKill++
			vrtAssert(nOwn == 0, "onkill-precedes-own-onkilled")
		}
		if vhIsOwnKilled(p.ref)(m) {
			nOwn++
		}
	}
	vrtAssert(nKill == 1, "onkill-delivered-once")
	vrtAssert(nOwn == 1, "own-onkilled-delivered-once")
	vrtAssert(after == 0, "nothing-after-own-onkilled")
	// one notice per watcher and for the parent, one event
	isNotice := func(e vivid.Envelop) bool { return vhIsOwnKilled(p.ref)(e.Message()) }
	for _, wc := range watchers {
		vrtAssert(vhCountEnv(w.boxes[wc], isNotice) == 1, "each-watcher-notified-once")
	}
	vrtAssert(vhCountEnv(w.rootBox, isNotice) == 1, "parent-notified-once")
	isEvent := func(ref vivid.ActorRef) func(e vivid.Envelop) bool {
		return func(e vivid.Envelop) bool {
			ev, ok := e.Message().(ves.ActorKilledEvent)
			return ok && ev.ActorRef.Equals(ref)
		}
	}
	vrtAssert(vhCountEnv(w.boxes[rec], isEvent(p.ref)) == 1, "one-killed-event")
	for _, k := range kids {
		vrtAssert(vhCountEnv(w.boxes[rec], isEvent(k.ref)) == 1, "one-killed-event")
	}
	vrtAssert(stillRegistered == 0, "path-released-before-termination-is-reported")
	vrtAssert(earlyNotice == 0, "reported-terminated-only-after-all-descendants")
	// released
	_, err := w.sys.FindActor(p.ref.String())
	vrtAssert(err != nil, "path-released")
	_, stale := es.subscriberTypes[p.ref.GetPath()]
	vrtAssert(!stale, "subscriptions-gone")
	for _, bucket := range es.subscribers {
		_, in := bucket[p.ref.GetPath()]
		vrtAssert(!in, "subscriptions-gone")
	}
	nb := len(w.boxes[p].all)
	es.Publish(rec, vhEvtB{N: 5})
	es.Publish(rec, vhEvtA{N: 6})
	vrtAssert(len(w.boxes[p].all) == nb, "subscriptions-gone")
	vrtAssert(len(p.scheduler.jobKeys) == 0 && len(w.quartz.Jobs) == 0, "scheduled-jobs-gone")
	// kill ordering w.r.t. queued user mail (C02)
	um := vhIndexOf("p", func(m vivid.Message) bool { u, ok := m.(*vhUserMsg); return ok && u.N == 1 })
	ki := vhIndexOf("p", vhIsKill)
	if poison {
		vrtAssert(um >= 0 && um < ki, "poison-kill-after-queued-user-mail")
		vrtReach("poison")
	} else {
		vrtAssert(um < 0, "immediate-kill-overtakes-user-mail")
		vrtReach("immediate")
	}
	// the name can be reused
	again := w.spawn(w.root, "p", &vhActor{name: "p2"})
	vrtAssert(again.state == running, "name-reusable")
}

// VH_C05_dead_runs_nothing: an actor that has seen its own OnKilled (state
// killed, not a zombie) never runs user code again, whatever arrives.
func VH_C05_dead_runs_nothing() {
	w := vhNewWorld()
	a := &vhActor{name: "a"}
	c := w.spawn(w.root, "a", a)
	w.root.Kill(c.ref, false, "x")
	w.run(100, "kill-terminates")
	vrtAssert(c.state == killed, "target-terminated")
	n := len(a.seen)
	msgs := []vivid.Message{&vivid.OnLaunch{}, &vivid.OnKill{Killer: w.root.ref}, &vivid.OnKilled{Ref: c.ref}, &vhUserMsg{N: 1},
		&RestartMessage{}, &SchedulerMessage{Reference: "r", Message: &vhUserMsg{}}, watchMessage, ves.DeathLetterEvent{}}
	k := vrtChoose(len(msgs))
	w.deliver(c, mailbox.NewEnvelop(vrtBool(), w.root.ref, c.ref, msgs[k]))
	w.run(100, "dead-letter-terminates")
	vrtAssert(len(a.seen) == n, "nothing-after-own-onkilled")
	vrtAssert(c.state == killed, "dead-stays-dead")
	vrtReach("delivered-to-dead")
}

// VH_C05_restart: supervised restart from running with every combination of
// hook outcomes, with and without a provider.
func VH_C05_restart() {
	vhLog = nil
	w := vhNewWorld()
	pa := vhLogged("p")
	p := w.spawn(w.root, "p", pa)
	first := &vhHookActor{}
	first.name = "a"
	first.onMsg = func(ctx vivid.ActorContext, m vivid.Message) { vhLog = append(vhLog, vhLogEntry{"a", m}) }
	first.preRestart = vrtChoose(3)
	var second *vhHookActor
	useProvider := vrtChoose(2) == 1
	mk := func() *vhHookActor {
		h := &vhHookActor{}
		h.name = "a2"
		h.incarnation = 2
		h.onMsg = func(ctx vivid.ActorContext, m vivid.Message) { vhLog = append(vhLog, vhLogEntry{"a2", m}) }
		return h
	}
	var opts []vivid.ActorOption
	restarted, prelaunch := vrtChoose(3), vrtChoose(3)
	if useProvider {
		opts = append(opts, vivid.WithActorProvider(vivid.ActorProviderFN(func() vivid.Actor {
			second = mk()
			second.restarted, second.prelaunch = restarted, prelaunch
			return second
		})))
		vrtReach("provider")
	}
	c := w.spawn(p, "a", first, opts...)
	if !useProvider {
		// the same instance is re-used: its hooks misbehave only from now on
		first.restarted, first.prelaunch = restarted, prelaunch
	}
	// a non-default behaviour that the restart must discard
	c.Become(func(ctx vivid.ActorContext) { vhLog = append(vhLog, vhLogEntry{"a", ctx.Message()}) })
	graceful := vrtBool()
	c.TellSelf(&vhUserMsg{N: 1})
	p.tell(!graceful, c.ref, &RestartMessage{Reason: "r", Fault: "f", Poison: graceful})
	launchesBefore := func(box *vhBox) int {
		return vhCountEnv(box, func(e vivid.Envelop) bool { _, ok := e.Message().(*vivid.OnLaunch); return ok })
	}
	selfL, parentL, rootL := launchesBefore(w.boxes[c]), launchesBefore(w.boxes[p]), launchesBefore(w.rootBox)
	w.run(200, "restart-terminates")

	ok := restarted == 0 && prelaunch == 0
	cur := first
	if useProvider {
		vrtAssert(second != nil, "restart-fresh-instance")
		cur = second
	}
	if ok {
		vrtReach("restart-success")
		vrtAssert(c.state == running && c.restarting == nil && !c.zombie, "restart-new-incarnation-running")
		vrtAssert(c.behaviorStack.Len() == 1, "restart-resets-behaviour")
		if useProvider {
			vrtAssert(c.actor == vivid.Actor(second), "restart-fresh-instance")
		}
		vrtAssert(launchesBefore(w.boxes[c])-selfL == 1, "restart-onlaunch-to-self")
		vrtAssert(launchesBefore(w.boxes[p])-parentL == 0 && launchesBefore(w.rootBox)-rootL == 0, "restart-onlaunch-to-nobody-else")
		// the new incarnation's behaviour sees OnLaunch before anything else
		if len(cur.seen) > 0 && useProvider {
			_, isLaunch := cur.seen[0].(*vivid.OnLaunch)
			vrtAssert(isLaunch, "new-incarnation-sees-onlaunch-first")
		}
		vrtAssert(!w.boxes[c].paused, "restart-leaves-mailbox-unpaused")
		// the new incarnation changes its behaviour and goes back: a Become followed
		// by an UnBecome that empties the stack falls back to the CURRENT
		// instance's OnReceive, and a Become'd behaviour replaces it meanwhile
		became := 0
		c.Become(func(ctx vivid.ActorContext) { became++ })
		c.TellSelf(&vhUserMsg{N: 70})
		w.run(50, "become-terminates")
		vrtAssert(became == 1 && vhSeenUser(&cur.vhActor, 70) == 0, "become-replaces-behaviour")
		switch vrtChoose(2) {
		case 0:
			c.UnBecome()
		case 1:
			c.UnBecome(vivid.WithBehaviorDiscardOld(true))
		}
		vrtAssert(c.behaviorStack.Len() == 1, "unbecome-falls-back-to-onreceive")
		c.TellSelf(&vhUserMsg{N: 71})
		w.run(50, "unbecome-terminates")
		vrtAssert(vhSeenUser(&cur.vhActor, 71) == 1, "unbecome-falls-back-to-the-current-incarnation")
		if useProvider {
			vrtAssert(vhSeenUser(&first.vhActor, 71) == 0, "nothing-after-own-onkilled")
		}
		// the reference is kept
		got, err := w.sys.FindActor(c.ref.String())
		vrtAssert(err == nil && got.Equals(c.ref), "restart-keeps-reference")
	} else {
		vrtReach("restart-zombie")
		vrtAssert(c.zombie, "hook-failure-makes-zombie")
		vrtAssert(launchesBefore(w.boxes[c])-selfL == 0 && launchesBefore(w.boxes[p])-parentL == 0, "zombie-gets-no-onlaunch")
		notice := func(e vivid.Envelop) bool { return vhIsOwnKilled(c.ref)(e.Message()) }
		vrtAssert(vhCountEnv(w.boxes[p], notice) == 0, "zombie-sends-no-termination-notice")
		vrtAssert(!w.boxes[c].paused, "zombie-mailbox-unpaused")
		// keeps consuming mail without running user code
		n := len(cur.seen)
		c.TellSelf(&vhUserMsg{N: 7})
		w.run(100, "zombie-consumes")
		vrtAssert(len(cur.seen) == n && len(w.boxes[c].usr) == 0, "zombie-consumes-silently")
		// released by an explicit kill
		p.Kill(c.ref, false, "release")
		w.run(100, "zombie-release")
		_, err := w.sys.FindActor(c.ref.String())
		vrtAssert(err != nil, "zombie-released-by-kill")
		vrtAssert(vhCountEnv(w.boxes[p], notice) == 1, "zombie-kill-notifies-parent")
	}
	// the old incarnation saw OnKill before its own OnKilled
	ki := vhIndexOf("a", vhIsKill)
	oi := vhIndexOf("a", vhIsOwnKilled(c.ref))
	if ki >= 0 && oi >= 0 {
		vrtAssert(ki < oi, "onkill-precedes-own-onkilled")
	}
	// queued user mail: graceful => processed by the old incarnation before the
	// restart; immediate => delivered to the new incarnation afterwards
	if ok && useProvider {
		um := func(m vivid.Message) bool { u, isU := m.(*vhUserMsg); return isU && u.N == 1 }
		if graceful {
			vrtAssert(vhIndexOf("a", um) >= 0, "graceful-restart-processes-queued-mail-first")
		} else {
			vrtAssert(vhIndexOf("a2", um) >= 0, "queued-mail-survives-restart")
		}
	}
}

// VH_C05_spawn: real ActorOf with the real goroutine-driven mailbox.
func VH_C05_spawn() {
	w := vhNewWorld()
	h := &vhHookActor{}
	h.name = "n"
	h.prelaunch = vrtChoose(3)
	before := len(w.rootBox.all)
	var ref vivid.ActorRef
	var err error
	func() {
		defer func() {
			if r := recover(); r != nil {
				err = vivid.ErrorActorPrelaunchFailed // a panicking prelaunch hook propagates; treated as failure
				vrtReach("prelaunch-panic-propagates")
			}
		}()
		ref, err = w.root.ActorOf(h, vivid.WithActorName("n"))
	}()
	vrtYield()
	if h.prelaunch == 0 {
		vrtAssert(err == nil && ref != nil, "spawn-ok")
		vrtAssert(len(h.seen) >= 1, "launched")
		_, isLaunch := h.seen[0].(*vivid.OnLaunch)
		vrtAssert(isLaunch, "onlaunch-first")
		vrtReach("spawned")
	} else {
		vrtAssert(err != nil, "prelaunch-failure-is-error")
		vrtAssert(len(h.seen) == 0, "prelaunch-failure-receives-nothing")
		_, ferr := w.sys.FindActor("localhost/n")
		vrtAssert(ferr != nil, "prelaunch-failure-registers-nothing")
		vrtAssert(len(w.root.children) == 0, "prelaunch-failure-registers-nothing")
		vrtAssert(len(w.rootBox.all) == before, "prelaunch-failure-sends-nothing")
		vrtReach("prelaunch-failed")
	}
}

// adopt swaps a recording mailbox into a context that was created by the real
// ActorOf (from inside a handler); what its real mailbox already holds (the
// OnLaunch) is delivered by that mailbox's own consumer goroutine at the next
// yield.
func (w *vhWorld) adopt(path string) *Context {
	v, ok := w.sys.actorContexts.Load(path)
	vrtAssert(ok, "adopt-registered")
	ctx := v.(*Context)
	box := &vhBox{name: path}
	ctx.mailbox = box
	ctx.ref.cache.Store(nil)
	w.boxes[ctx] = box
	w.order = append(w.order, ctx)
	return ctx
}

// VH_C06_respawn_in_handler: a child terminates; its parent, while handling
// that child's OnKilled, spawns a new child under the SAME name through the
// real ActorOf; then the parent is killed. The new child belongs to the
// subtree: it is terminated with the parent (children first), reported once,
// its path released.
func VH_C06_respawn_in_handler() {
	vhLog = nil
	w := vhNewWorld()
	rec := w.spawn(w.root, "rec", &vhActor{name: "rec"})
	es := w.sys.eventStream.(*eventStream)
	es.Subscribe(rec, ves.ActorKilledEvent{})
	pa := vhLogged("p")
	p := w.spawn(w.root, "p", pa)
	c := w.spawn(p, "c", vhLogged("c"))
	other := w.spawn(p, "d", vhLogged("d"))
	c2a := vhLogged("c2")
	var c2 *Context
	respawnOn := vrtChoose(2) // 0: when c dies, 1: when d dies (a different name than the one reused)
	logIt := pa.onMsg
	pa.onMsg = func(ctx vivid.ActorContext, m vivid.Message) {
		logIt(ctx, m)
		k, ok := m.(*vivid.OnKilled)
		if !ok || k.Ref.Equals(ctx.Ref()) || c2 != nil {
			return
		}
		if (respawnOn == 0 && k.Ref.Equals(c.ref)) || (respawnOn == 1 && k.Ref.Equals(other.ref) && c.state == killed) {
			_, err := ctx.ActorOf(c2a, vivid.WithActorName("c"))
			vrtAssert(err == nil, "name-of-terminated-child-reusable-from-the-onkilled-handler")
			c2 = w.adopt(c.ref.GetPath())
		}
	}
	w.root.Kill(c.ref, vrtBool(), "first")
	w.run(200, "kill-terminates")
	if respawnOn == 1 {
		w.root.Kill(other.ref, vrtBool(), "second")
		w.run(200, "kill-terminates")
	}
	vrtYield()
	w.run(200, "kill-terminates")
	vrtAssert(c.state == killed, "target-terminated")
	vrtAssert(c2 != nil && c2.state == running, "respawned-child-runs")
	_, listed := p.children[c2.ref.GetPath()]
	vrtAssert(listed, "respawned-child-is-a-child-of-its-parent")
	vrtAssert(vhIndexOf("c2", func(m vivid.Message) bool { _, ok := m.(*vivid.OnLaunch); return ok }) >= 0, "respawned-child-launched")

	poison := vrtBool()
	w.root.Kill(p.ref, poison, "parent")
	w.run(400, "kill-terminates")
	vrtYield()
	w.run(400, "kill-terminates")
	vrtAssert(p.state == killed, "target-terminated")
	vrtAssert(c2.state == killed, "descendants-terminated")
	if respawnOn == 0 {
		vrtAssert(other.state == killed, "descendants-terminated")
	}
	own := vhIndexOf("p", vhIsOwnKilled(p.ref))
	ci := vhIndexOf("c2", vhIsOwnKilled(c2.ref))
	vrtAssert(own >= 0 && ci >= 0 && ci < own, "children-terminate-before-parent")
	_, err := w.sys.FindActor(c2.ref.String())
	vrtAssert(err != nil, "path-released")
	_, err = w.sys.FindActor(p.ref.String())
	vrtAssert(err != nil, "path-released")
	nEv := vhCountEnv(w.boxes[rec], func(e vivid.Envelop) bool {
		ev, ok := e.Message().(ves.ActorKilledEvent)
		return ok && ev.ActorRef.Equals(c2.ref)
	})
	// the first incarnation and the respawned one have the same path: two events in total
	vrtAssert(nEv == 2, "one-killed-event")
	vrtReach("respawned-and-killed")
}

// VH_C06_many_children: a parent with many children (some with a child of
// their own) is killed: every descendant terminates before the parent, each is
// reported once, every path is released.
func VH_C06_many_children() {
	vhLog = nil
	w := vhNewWorld()
	rec := w.spawn(w.root, "rec", &vhActor{name: "rec"})
	es := w.sys.eventStream.(*eventStream)
	es.Subscribe(rec, ves.ActorKilledEvent{})
	p := w.spawn(w.root, "p", vhLogged("p"))
	n := []int{9, 33, 70}[vrtChoose(3)]
	var all []*Context
	for i := 0; i < n; i++ {
		name := "c" + string(rune('a'+i/26)) + string(rune('a'+i%26))
		c := w.spawn(p, name, &vhActor{name: name})
		all = append(all, c)
		if i%7 == 0 {
			all = append(all, w.spawn(c, "g", &vhActor{name: "g"}))
		}
	}
	w.root.Kill(p.ref, vrtBool(), "x")
	w.run(20*n+200, "kill-terminates")
	vrtAssert(p.state == killed, "target-terminated")
	for _, c := range all {
		vrtAssert(c.state == killed, "descendants-terminated")
		_, err := w.sys.FindActor(c.ref.String())
		vrtAssert(err != nil, "path-released")
	}
	events := 0
	for _, e := range w.boxes[rec].all {
		if _, ok := e.Message().(ves.ActorKilledEvent); ok {
			events++
		}
	}
	vrtAssert(events == len(all)+1, "one-killed-event")
	vrtAssert(len(p.children) == 0, "killed-only-when-childless")
	vrtReach("many-children")
}
