//go:build verif

package actor

import (
	"sync/atomic"

	"github.com/kercylan98/vivid"
	"github.com/kercylan98/vivid/internal/messages"
	"github.com/kercylan98/vivid/pkg/ves"
)

// C08 / C09 — supervision applies exactly the decided directive to exactly its
// targets; nobody stays paused; queued mail survives. Transition-level lemmas
// on the harness world, one deterministic delivery schedule.

type vhDecider struct {
	decision vivid.SupervisionDecision
	calls    int
}

func (d *vhDecider) MakeDecision(ctx vivid.SupervisionContext) (vivid.SupervisionDecision, string) {
	d.calls++
	return d.decision, "vh"
}

type vhBoom struct{}

func vhFailing(name string, useFailed bool) *vhActor {
	a := vhLogged(name)
	inner := a.onMsg
	a.onMsg = func(ctx vivid.ActorContext, m vivid.Message) {
		inner(ctx, m)
		if _, ok := m.(*vhBoom); ok {
			if useFailed {
				ctx.Failed("vh-failed")
			}
			panic("vh-fault")
		}
	}
	return a
}

func vhSeenUser(a *vhActor, n int) int {
	c := 0
	for _, m := range a.seen {
		if u, ok := m.(*vhUserMsg); ok && u.N == n {
			c++
		}
	}
	return c
}

// VH_C08_supervise: parent p (strategy symbolic) with children c0 (fails) and
// c1 (sibling, with its own child g1); decision symbolic over the six values.
func VH_C08_supervise() {
	vhLog = nil
	w := vhNewWorld()
	d := &vhDecider{decision: vivid.SupervisionDecision(1 + vrtChoose(6))}
	oneForAll := vrtChoose(2) == 1
	var strat vivid.SupervisionStrategy
	if oneForAll {
		strat = vivid.OneForAllStrategy(d)
	} else {
		strat = vivid.OneForOneStrategy(d)
	}
	// the top-level default applies when p escalates: root has no strategy of its own
	pa := vhLogged("p")
	p := w.spawn(w.root, "p", pa, vivid.WithActorSupervisionStrategy(strat))
	useFailed := vrtBool()
	a0 := vhFailing("c0", useFailed)
	a1 := vhLogged("c1")
	var fresh0 *vhActor
	c0 := w.spawn(p, "c0", a0, vivid.WithActorProvider(vivid.ActorProviderFN(func() vivid.Actor {
		fresh0 = vhLogged("c0b")
		return fresh0
	})))
	// the failing child may itself have a live child: its restart / stop then
	// completes only when that child has terminated
	var g0 *Context
	if vrtChoose(2) == 1 {
		g0 = w.spawn(c0, "g0", vhLogged("g0"))
		vrtReach("failing-child-has-a-child")
	}
	c1 := w.spawn(p, "c1", a1)
	g1a := vhLogged("g1")
	g1 := w.spawn(c1, "g1", g1a)
	other := w.spawn(w.root, "other", vhLogged("other"))

	// optionally the failing child has stashed a message before it fails: the
	// stash belongs to the actor (its context), whatever happens to the incarnation
	stashed := vrtChoose(2) == 1
	if stashed {
		inner0 := a0.onMsg
		a0.onMsg = func(ctx vivid.ActorContext, m vivid.Message) {
			if u, ok := m.(*vhUserMsg); ok && u.N == 7 {
				ctx.Stash()
				return
			}
			inner0(ctx, m)
		}
		c0.TellSelf(&vhUserMsg{N: 7})
		vrtReach("stash-before-failure")
	}
	// a burst: one message before the failing one, two behind it
	c0.TellSelf(&vhUserMsg{N: 1})
	c0.TellSelf(&vhBoom{})
	c0.TellSelf(&vhUserMsg{N: 2})
	c0.TellSelf(&vhUserMsg{N: 3})
	c1.TellSelf(&vhUserMsg{N: 5})
	w.run(600, "supervision-terminates")
	// messages sent afterwards are processed by every survivor
	for _, c := range []*Context{p, c0, c1, g1, other} {
		if c.state == running {
			c.TellSelf(&vhUserMsg{N: 100})
		}
	}
	w.run(600, "supervision-terminates")

	if stashed {
		// C03: the stashed message is still in the stash, or was dead-lettered, exactly once
		dead7 := 0
		for _, dl := range vhDeathLetters(w) {
			if u, ok := dl.Envelope.Message().(*vhUserMsg); ok && u.N == 7 {
				dead7++
			}
		}
		in7 := 0
		for _, e := range c0.stash {
			if u, ok := e.Message().(*vhUserMsg); ok && u.N == 7 {
				in7++
			}
		}
		vrtAssert(in7+dead7 == 1, "stashed-mail-keeps-exactly-one-fate-across-the-directive")
	}
	dec := d.decision
	vrtAssert(d.calls == 1 || dec.IsEscalate(), "strategy-consulted-exactly-once")
	if dec.IsEscalate() {
		vrtAssert(d.calls == 1, "strategy-consulted-exactly-once")
	}
	// nobody outside the target set is touched
	vrtAssert(other.state == running && vhSeenUser(other.actor.(*vhActor), 100) == 1, "non-targets-untouched")
	vrtAssert(w.boxes[other].pauses == 0, "non-targets-untouched")
	if !oneForAll && !dec.IsEscalate() {
		vrtAssert(c1.state == running && w.boxes[c1].pauses == 0, "one-for-one-touches-only-failing-child")
		vrtAssert(vhSeenUser(a1, 5) == 1 && vhSeenUser(a1, 100) == 1, "one-for-one-touches-only-failing-child")
		vrtAssert(g1.state == running && vhSeenUser(g1a, 100) == 1, "one-for-one-touches-only-failing-child")
	}
	// every survivor is unpaused and processes later mail (C09)
	for _, c := range []*Context{p, c0, c1, g1} {
		if c.state == running && !c.zombie {
			vrtAssert(!w.boxes[c].paused, "no-survivor-left-paused")
			vrtAssert(len(w.boxes[c].usr) == 0 && len(w.boxes[c].sys) == 0, "no-survivor-left-with-undelivered-mail")
		}
		vrtAssert(c.state == running || c.state == killed, "nobody-half-stopped")
	}
	if g0 != nil {
		vrtAssert(g0.state == running || g0.state == killed, "nobody-half-stopped")
		if dec.IsRestart() || dec.IsStop() || dec.IsEscalate() {
			vrtAssert(g0.state == killed, "children-of-a-restarted-or-stopped-actor-terminate")
		}
	}
	cur0 := a0
	switch {
	case dec.IsRestart():
		vrtReach("restart")
		vrtAssert(c0.state == running && fresh0 != nil && c0.actor == vivid.Actor(fresh0), "restart-keeps-reference-resets-state")
		cur0 = fresh0
		vrtAssert(vhSeenUser(cur0, 100) == 1, "survivor-processes-later-mail")
		// queued mail behind the failing message is delivered in order
		if dec.IsGraceful() {
			vrtAssert(vhSeenUser(a0, 2) == 1 && vhSeenUser(a0, 3) == 1, "graceful-restart-processes-queued-mail-first")
		} else {
			i2 := vhIndexOf("c0b", func(m vivid.Message) bool { u, ok := m.(*vhUserMsg); return ok && u.N == 2 })
			i3 := vhIndexOf("c0b", func(m vivid.Message) bool { u, ok := m.(*vhUserMsg); return ok && u.N == 3 })
			vrtAssert(i2 >= 0 && i3 > i2, "queued-mail-survives-restart-in-order")
		}
		vrtAssert(vhSeenUser(a0, 1) == 1 && vhSeenUser(cur0, 1) == 0, "processed-mail-not-redelivered")
		if oneForAll {
			vrtAssert(c1.state == running && vhSeenUser(c1.actor.(*vhActor), 100) == 1, "one-for-all-restarts-all-children")
			vrtAssert(w.boxes[c1].pauses >= 1, "one-for-all-restarts-all-children")
		}
	case dec.IsStop():
		vrtReach("stop")
		vrtAssert(c0.state == killed, "stop-terminates-target")
		notice := func(e vivid.Envelop) bool { return vhIsOwnKilled(c0.ref)(e.Message()) }
		vrtAssert(vhCountEnv(w.boxes[p], notice) == 1, "stop-notifies-parent")
		if dec.IsGraceful() {
			vrtAssert(vhSeenUser(a0, 2) == 1 && vhSeenUser(a0, 3) == 1, "graceful-stop-processes-queued-mail-first")
		}
		if oneForAll {
			vrtAssert(c1.state == killed && g1.state == killed, "one-for-all-stops-all-children")
		}
		vrtAssert(p.state == running && vhSeenUser(pa, 100) == 1, "stop-leaves-supervisor-running")
	case dec.IsResume():
		vrtReach("resume")
		vrtAssert(c0.state == running && c0.actor == vivid.Actor(a0), "resume-keeps-state")
		n := 0
		for _, m := range a0.seen {
			if _, ok := m.(*vhBoom); ok {
				n++
			}
		}
		vrtAssert(n == 1, "failing-message-dropped-not-redelivered")
		i2 := vhIndexOf("c0", func(m vivid.Message) bool { u, ok := m.(*vhUserMsg); return ok && u.N == 2 })
		i3 := vhIndexOf("c0", func(m vivid.Message) bool { u, ok := m.(*vhUserMsg); return ok && u.N == 3 })
		vrtAssert(i2 >= 0 && i3 > i2, "queued-mail-delivered-after-resume-in-order")
		vrtAssert(vhSeenUser(a0, 100) == 1, "survivor-processes-later-mail")
	case dec.IsEscalate():
		vrtReach("escalate")
		// the grandparent (root) has the system default: Stop, applied to p
		vrtAssert(p.state == killed && c0.state == killed && c1.state == killed && g1.state == killed, "escalation-ends-in-default-stop-of-the-escalating-subtree")
		vrtAssert(other.state == running, "non-targets-untouched")
	}
}

// VH_C08_failure_while_stopping: a panic while handling OnKill, or while
// handling OnKilled when not running, does not trigger supervision.
func VH_C08_failure_while_stopping() {
	vhLog = nil
	w := vhNewWorld()
	d := &vhDecider{decision: vivid.SupervisionDecisionRestart}
	p := w.spawn(w.root, "p", vhLogged("p"), vivid.WithActorSupervisionStrategy(vivid.OneForOneStrategy(d)))
	a := vhLogged("c")
	site := vrtChoose(4)
	inner := a.onMsg
	a.onMsg = func(ctx vivid.ActorContext, m vivid.Message) {
		inner(ctx, m)
		switch k := m.(type) {
		case *vivid.OnKill:
			if site == 0 {
				panic("in-onkill")
			}
		case *vivid.OnKilled:
			if site == 1 {
				panic("in-onkilled")
			}
			if site == 3 && !k.Ref.Equals(ctx.Ref()) {
				// a child's termination notice, handled while this actor is itself stopping
				panic("in-child-onkilled-while-stopping")
			}
		case *vhUserMsg:
			if site == 2 {
				panic("in-user-while-running")
			}
		}
	}
	c := w.spawn(p, "c", a)
	if site == 3 {
		w.spawn(c, "k0", vhLogged("k0"))
		w.spawn(c, "k1", vhLogged("k1"))
		vrtReach("child-notice-while-stopping")
	}
	if site == 2 {
		c.TellSelf(&vhUserMsg{N: 1})
		w.run(300, "supervision-terminates")
		vrtAssert(d.calls == 1, "failure-while-running-is-supervised")
		vrtReach("running-failure")
		return
	}
	p.Kill(c.ref, vrtBool(), "stop")
	w.run(300, "kill-terminates")
	vrtAssert(d.calls == 0, "no-supervision-while-stopping")
	vrtAssert(c.state == killed, "target-terminated")
	notice := func(e vivid.Envelop) bool { return vhIsOwnKilled(c.ref)(e.Message()) }
	vrtAssert(vhCountEnv(w.boxes[p], notice) == 1, "parent-notified-once")
	vrtReach("stopping-failure")
}

// VH_C09_pause_commands: the mailbox commands reach the real mailbox methods.
func VH_C09_pause_commands() {
	w := vhNewWorld()
	c := w.spawn(w.root, "c", vhLogged("c"))
	w.root.tell(true, c.ref, messages.CommandPauseMailbox.Build())
	w.run(50, "cmd")
	vrtAssert(w.boxes[c].paused, "pause-command-pauses")
	c.TellSelf(&vhUserMsg{N: 1})
	w.run(50, "cmd")
	vrtAssert(vhSeenUser(c.actor.(*vhActor), 1) == 0, "paused-user-mail-waits")
	w.root.tell(true, c.ref, messages.CommandResumeMailbox.Build())
	w.run(50, "cmd")
	vrtAssert(!w.boxes[c].paused && vhSeenUser(c.actor.(*vhActor), 1) == 1, "resume-command-resumes")
	vrtReach("done")
}

// VH_C08_escalate_chain: c0 fails, its parent p escalates (optionally through a
// second escalating level m), the top supervisor gp decides (decision and
// strategy symbolic); uncle u is gp's other child.
func VH_C08_escalate_chain() {
	vhLog = nil
	w := vhNewWorld()
	dG := &vhDecider{decision: vivid.SupervisionDecision(1 + vrtChoose(6))}
	dP := &vhDecider{decision: vivid.SupervisionDecisionEscalate}
	dM := &vhDecider{decision: vivid.SupervisionDecisionEscalate}
	oneForAll := vrtChoose(2) == 1
	hops := 1 + vrtChoose(2)
	var strat vivid.SupervisionStrategy
	if oneForAll {
		strat = vivid.OneForAllStrategy(dG)
	} else {
		strat = vivid.OneForOneStrategy(dG)
	}
	gpa := vhLogged("gp")
	gp := w.spawn(w.root, "gp", gpa, vivid.WithActorSupervisionStrategy(strat))
	// t1 is gp's child on the failing branch: p itself, or the extra level m
	var freshT1 *vhActor
	provider := vivid.WithActorProvider(vivid.ActorProviderFN(func() vivid.Actor {
		freshT1 = vhLogged("t1b")
		return freshT1
	}))
	pa := vhLogged("p")
	var p, m *Context
	var t1 *Context
	var t1a *vhActor
	if hops == 2 {
		ma := vhLogged("m")
		m = w.spawn(gp, "m", ma, vivid.WithActorSupervisionStrategy(vivid.OneForOneStrategy(dM)), provider)
		p = w.spawn(m, "p", pa, vivid.WithActorSupervisionStrategy(vivid.OneForOneStrategy(dP)))
		t1, t1a = m, ma
		vrtReach("two-hops")
	} else {
		p = w.spawn(gp, "p", pa, vivid.WithActorSupervisionStrategy(vivid.OneForOneStrategy(dP)), provider)
		t1, t1a = p, pa
	}
	ua := vhLogged("u")
	u := w.spawn(gp, "u", ua)
	a0 := vhFailing("c0", vrtBool())
	c0 := w.spawn(p, "c0", a0)
	a1 := vhLogged("c1")
	c1 := w.spawn(p, "c1", a1)
	other := w.spawn(w.root, "other", vhLogged("other"))

	c0.TellSelf(&vhUserMsg{N: 1})
	c0.TellSelf(&vhBoom{})
	c0.TellSelf(&vhUserMsg{N: 2})
	p.TellSelf(&vhUserMsg{N: 7})
	w.run(1200, "supervision-terminates")
	all := []*Context{gp, p, u, c0, c1, other}
	if m != nil {
		all = append(all, m)
	}
	for _, c := range all {
		if c.state == running {
			c.TellSelf(&vhUserMsg{N: 100})
		}
	}
	w.run(1200, "supervision-terminates")

	dec := dG.decision
	vrtAssert(dP.calls == 1, "strategy-consulted-exactly-once")
	if hops == 2 {
		vrtAssert(dM.calls == 1, "strategy-consulted-exactly-once")
	}
	vrtAssert(dG.calls == 1, "escalation-consults-grandparent-exactly-once")
	vrtAssert(other.state == running && w.boxes[other].pauses == 0 && vhSeenUser(other.actor.(*vhActor), 100) == 1, "non-targets-untouched")
	for _, c := range all {
		vrtAssert(c.state == running || c.state == killed, "nobody-half-stopped")
		if c.state == running && !c.zombie {
			vrtAssert(!w.boxes[c].paused, "no-survivor-left-paused")
			vrtAssert(len(w.boxes[c].usr) == 0 && len(w.boxes[c].sys) == 0, "no-survivor-left-with-undelivered-mail")
			if va, ok := c.actor.(*vhActor); ok {
				vrtAssert(vhSeenUser(va, 100) == 1, "survivor-processes-later-mail")
			}
		}
	}
	if !oneForAll && !dec.IsEscalate() {
		vrtAssert(u.state == running && w.boxes[u].pauses == 0 && u.actor == vivid.Actor(ua), "one-for-one-touches-only-failing-child")
	}
	switch {
	case dec.IsResume():
		vrtReach("resume")
		vrtAssert(t1.state == running && t1.actor == vivid.Actor(t1a), "resume-keeps-state")
		vrtAssert(p.state == running && p.actor == vivid.Actor(pa), "resume-keeps-state")
		vrtAssert(c0.state == running && c0.actor == vivid.Actor(a0) && c1.state == running, "resume-keeps-state")
		vrtAssert(vhSeenUser(a0, 2) == 1, "queued-mail-delivered-after-resume-in-order")
		vrtAssert(vhSeenUser(pa, 7) == 1, "queued-mail-delivered-after-resume-in-order")
	case dec.IsRestart():
		vrtReach("restart")
		vrtAssert(t1.state == running && freshT1 != nil && t1.actor == vivid.Actor(freshT1), "restart-keeps-reference-resets-state")
		if oneForAll {
			vrtAssert(u.state == running && w.boxes[u].pauses >= 1, "one-for-all-restarts-all-children")
		}
	case dec.IsStop():
		vrtReach("stop")
		vrtAssert(t1.state == killed && p.state == killed && c0.state == killed && c1.state == killed, "stop-terminates-target")
		notice := func(e vivid.Envelop) bool { return vhIsOwnKilled(t1.ref)(e.Message()) }
		vrtAssert(vhCountEnv(w.boxes[gp], notice) == 1, "stop-notifies-parent")
		vrtAssert(gp.state == running, "stop-leaves-supervisor-running")
		if oneForAll {
			vrtAssert(u.state == killed, "one-for-all-stops-all-children")
		}
	case dec.IsEscalate():
		vrtReach("escalate")
		vrtAssert(gp.state == killed && t1.state == killed && p.state == killed && u.state == killed && c0.state == killed && c1.state == killed, "escalation-ends-in-default-stop-of-the-escalating-subtree")
	}
}

// runOnly delivers envelopes to the given contexts only, until none of them
// has a deliverable envelope.
func (w *vhWorld) runOnly(max int, name string, only ...*Context) {
	n := 0
	for {
		progressed := false
		for _, c := range only {
			if e := w.boxes[c].next(); e != nil {
				c.HandleEnvelop(e)
				progressed = true
				n++
				vrtAssert(n <= max, name)
				break
			}
		}
		if !progressed {
			return
		}
	}
}

// VH_C08_child_fails_while_supervisor_in_transition: tree root -> g -> p -> c.
// The supervisor p is already restarting (its own failure, g decides a
// graceful restart) or stopping (poison kill from outside) and has told its
// still-running child c to stop (a poison kill queued as user mail) when c,
// working through its earlier mail, fails. That failure is a failure like any
// other: p's strategy is consulted exactly once and its decision applied; c is
// not left paused, p is not left half-stopped, mail to c is processed or
// dead-lettered.
func VH_C08_child_fails_while_supervisor_in_transition() {
	vhLog = nil
	w := vhNewWorld()
	dg := &vhDecider{decision: vivid.SupervisionDecisionGracefulRestart}
	ga := vhLogged("g")
	g := w.spawn(w.root, "g", ga, vivid.WithActorSupervisionStrategy(vivid.OneForOneStrategy(dg)))
	dp := &vhDecider{decision: vivid.SupervisionDecision(1 + vrtChoose(6))}
	vrtAssume(!dp.decision.IsEscalate())
	pa := vhFailing("p", false)
	p := w.spawn(g, "p", pa, vivid.WithActorSupervisionStrategy(vivid.OneForOneStrategy(dp)))
	ca := vhFailing("c", vrtBool())
	c := w.spawn(p, "c", ca)
	rec := w.spawn(w.root, "rec", &vhActor{name: "rec"})
	es := w.sys.eventStream.(*eventStream)
	es.Subscribe(rec, ves.DeathLetterEvent{})

	// c's earlier mail: it will fail on it, but only after p has told it to stop
	c.TellSelf(&vhBoom{})
	c.TellSelf(&vhUserMsg{N: 2})
	mode := vrtChoose(2)
	if mode == 0 {
		p.TellSelf(&vhBoom{}) // p fails; g restarts it gracefully
		vrtReach("supervisor-restarting")
	} else {
		w.root.Kill(p.ref, true, "stop") // p is stopped by a poison kill
		vrtReach("supervisor-stopping")
	}
	w.runOnly(200, "transition-terminates", p, g, w.root)
	vrtAssert(atomic.LoadInt32(&p.state) == killing, "setup-supervisor-is-in-transition")
	vrtAssert(c.state == running, "setup-child-still-running")
	// now c works through its mail and fails
	w.run(800, "supervision-terminates")
	vrtYield()
	w.run(800, "supervision-terminates")

	vrtAssert(dp.calls == 1, "strategy-consulted-exactly-once")
	for _, x := range []*Context{g, p, c} {
		vrtAssert(x.state == running || x.state == killed, "nobody-half-stopped")
		if x.state == running && !x.zombie {
			vrtAssert(!w.boxes[x].paused, "no-survivor-left-paused")
			vrtAssert(len(w.boxes[x].usr) == 0 && len(w.boxes[x].sys) == 0, "no-survivor-left-with-undelivered-mail")
		}
	}
	// the child was told to stop by its supervisor: it terminates
	vrtAssert(c.state == killed, "stopped-child-terminates")
	if mode == 0 {
		vrtAssert(p.state == running, "restarted-supervisor-runs-again")
	} else {
		vrtAssert(p.state == killed, "stopped-supervisor-terminates")
	}
	// C03: the mail queued behind the failing message is processed or dead-lettered, once
	processed := vhSeenUser(ca, 2)
	dead := 0
	for _, e := range w.boxes[rec].all {
		if d, ok := e.Message().(ves.DeathLetterEvent); ok {
			if u, ok := d.Envelope.Message().(*vhUserMsg); ok && u.N == 2 {
				dead++
			}
		}
	}
	vrtAssert(processed+dead == 1, "exactly-one-fate")
}

// VH_C09_zombie_sibling: one-for-all supervision with a Restart decision. Child
// a's restart hook fails, so a becomes a zombie. Later its sibling b fails: the
// directive (pause + restart) reaches the zombie too. Afterwards the zombie is
// still not paused (it keeps consuming its mail), runs no user code, and is
// released by an explicit (also a graceful) Kill or by its parent's
// termination; b is running and processes later mail.
func VH_C09_zombie_sibling() {
	vhLog = nil
	w := vhNewWorld()
	graceful := vrtBool()
	dec := vivid.SupervisionDecisionRestart
	if graceful {
		dec = vivid.SupervisionDecisionGracefulRestart
	}
	d := &vhDecider{decision: dec}
	pa := vhLogged("p")
	p := w.spawn(w.root, "p", pa, vivid.WithActorSupervisionStrategy(vivid.OneForAllStrategy(d)))
	ha := &vhHookActor{}
	ha.name = "a"
	which := vrtChoose(2)
	if which == 0 {
		ha.restarted = 1 + vrtChoose(2)
	} else {
		ha.prelaunch = 1 + vrtChoose(2)
	}
	ha.onMsg = func(ctx vivid.ActorContext, m vivid.Message) {
		vhLog = append(vhLog, vhLogEntry{"a", m})
		if _, ok := m.(*vhBoom); ok {
			panic("vh-fault")
		}
	}
	prelaunchArmed := ha.prelaunch
	ha.prelaunch = 0 // the initial spawn succeeds
	a := w.spawn(p, "a", ha)
	ha.prelaunch = prelaunchArmed
	ba := vhFailing("b", false)
	b := w.spawn(p, "b", ba)

	es := w.sys.eventStream.(*eventStream)
	es.Subscribe(a, vhEvtA{})
	es.Subscribe(a, vhEvtB{})
	a.TellSelf(&vhBoom{})
	w.run(800, "supervision-terminates")
	vrtAssert(a.zombie, "hook-failure-makes-zombie")
	vrtAssert(b.state == running, "sibling-restarted")
	userSeenByZombie := len(ha.seen)

	b.TellSelf(&vhBoom{}) // the directive now reaches the zombie as well
	w.run(800, "supervision-terminates")
	vrtAssert(b.state == running && !w.boxes[b].paused, "no-survivor-left-paused")
	vrtAssert(!w.boxes[a].paused, "zombie-not-left-paused")
	a.TellSelf(&vhUserMsg{N: 50})
	b.TellSelf(&vhUserMsg{N: 51})
	w.run(800, "supervision-terminates")
	vrtAssert(len(w.boxes[a].usr) == 0 && len(w.boxes[a].sys) == 0, "zombie-keeps-consuming-its-mail")
	vrtAssert(vhSeenUser(&ha.vhActor, 50) == 0 && len(ha.seen) == userSeenByZombie, "zombie-runs-no-user-code")
	vrtAssert(vhSeenUser(b.actor.(*vhActor), 51) == 1, "survivor-processes-later-mail")

	noticeA := func(e vivid.Envelop) bool { return vhIsOwnKilled(a.ref)(e.Message()) }
	if vrtChoose(2) == 0 {
		w.root.Kill(a.ref, vrtBool(), "release") // explicit kill, immediate or graceful
		w.run(800, "kill-terminates")
		_, err := w.sys.FindActor(a.ref.String())
		vrtAssert(err != nil, "zombie-path-released-by-explicit-kill")
		vrtAssert(!w.boxes[a].paused, "zombie-not-left-paused")
		// released exactly once (by the second restart directive or by this kill)
		vrtAssert(vhCountEnv(w.boxes[p], noticeA) >= 1, "zombie-release-reported-to-parent")
		vrtAssert(vhCountEnv(w.boxes[p], noticeA) <= 1, "zombie-release-reported-to-parent-at-most-once")
		vrtAssert(p.state == running && b.state == running, "zombie-release-leaves-the-others-running")
		_, stale := es.subscriberTypes[a.ref.GetPath()]
		vrtAssert(!stale, "terminated-subscriber-has-no-entry")
		for _, bucket := range es.subscribers {
			_, in := bucket[a.ref.GetPath()]
			vrtAssert(!in, "terminated-subscriber-has-no-entry")
		}
		nb := len(w.boxes[a].all)
		es.Publish(p, vhEvtA{N: 9})
		vrtAssert(len(w.boxes[a].all) == nb, "no-delivery-after-termination")
		vrtReach("released-by-kill")
	} else {
		w.root.Kill(p.ref, vrtBool(), "parent")
		w.run(800, "kill-terminates")
		vrtAssert(p.state == killed && b.state == killed, "zombie-released-by-parent-termination")
		_, err := w.sys.FindActor(a.ref.String())
		vrtAssert(err != nil, "zombie-released-by-parent-termination")
		_, err = w.sys.FindActor(p.ref.String())
		vrtAssert(err != nil, "zombie-released-by-parent-termination")
		vrtAssert(vhCountEnv(w.boxes[p], noticeA) <= 1, "zombie-release-reported-to-parent-exactly-once")
		vrtReach("released-by-parent")
	}
}

// VH_C08_second_failure_while_awaiting_decision: tree p -> c -> d. c fails on a
// user message; before p has decided, d terminates and c's handler fails again
// on that OnKilled{d} (a system message, delivered although c's mailbox is
// paused). These are two failures: p's strategy is consulted once for each and
// both decisions are applied; nobody is left paused or half-stopped.
func VH_C08_second_failure_while_awaiting_decision() {
	vhLog = nil
	w := vhNewWorld()
	dp := &vhDecider{decision: vivid.SupervisionDecision(1 + vrtChoose(6))}
	vrtAssume(!dp.decision.IsEscalate())
	pa := vhLogged("p")
	p := w.spawn(w.root, "p", pa, vivid.WithActorSupervisionStrategy(vivid.OneForOneStrategy(dp)))
	ca := vhLogged("c")
	logIt := ca.onMsg
	useFailed := vrtBool()
	ca.onMsg = func(ctx vivid.ActorContext, m vivid.Message) {
		logIt(ctx, m)
		switch k := m.(type) {
		case *vhBoom:
			panic("first")
		case *vivid.OnKilled:
			if !k.Ref.Equals(ctx.Ref()) {
				if useFailed {
					ctx.Failed("second")
				}
				panic("second")
			}
		}
	}
	c := w.spawn(p, "c", ca)
	d := w.spawn(c, "d", vhLogged("d"))
	c.TellSelf(&vhBoom{})
	c.TellSelf(&vhUserMsg{N: 2})
	w.runOnly(50, "first-failure", c)
	vrtAssert(w.boxes[c].paused, "setup-first-failure-pauses")
	w.root.Kill(d.ref, false, "x")
	w.runOnly(100, "second-failure", d, c)
	vrtAssert(d.state == killed, "setup-child-terminated")
	w.run(800, "supervision-terminates")
	vrtAssert(dp.calls == 2, "strategy-consulted-once-per-failure")
	for _, x := range []*Context{p, c} {
		vrtAssert(x.state == running || x.state == killed, "nobody-half-stopped")
		if x.state == running && !x.zombie {
			vrtAssert(!w.boxes[x].paused, "no-survivor-left-paused")
			vrtAssert(len(w.boxes[x].usr) == 0 && len(w.boxes[x].sys) == 0, "no-survivor-left-with-undelivered-mail")
		}
	}
	if dp.decision.IsStop() {
		vrtAssert(c.state == killed, "stop-terminates-target")
	}
	vrtReach("two-failures")
}

// VH_C03_paused_again_while_stopping: t is being stopped but lingers in
// `killing` because its child s is slow to terminate. In that window its
// mailbox is paused again (a sibling fails under one-for-all supervision and the
// directive reaches t as well). Mail sent to t while it is paused, and mail sent
// after it has terminated through the reference that cached its mailbox, is
// still processed or dead-lettered exactly once.
func VH_C03_paused_again_while_stopping() {
	vhLog = nil
	w := vhNewWorld()
	dec := vivid.SupervisionDecisionStop
	switch vrtChoose(3) {
	case 1:
		dec = vivid.SupervisionDecisionGracefulStop
	case 2:
		dec = vivid.SupervisionDecisionResume
	}
	dp := &vhDecider{decision: dec}
	p := w.spawn(w.root, "p", vhLogged("p"), vivid.WithActorSupervisionStrategy(vivid.OneForAllStrategy(dp)))
	ta := vhLogged("t")
	t := w.spawn(p, "t", ta)
	s := w.spawn(t, "s", vhLogged("s"))
	b := w.spawn(p, "b", vhFailing("b", false))
	rec := w.spawn(w.root, "rec", &vhActor{name: "rec"})
	es := w.sys.eventStream.(*eventStream)
	es.Subscribe(rec, ves.DeathLetterEvent{})

	w.root.Kill(t.ref, false, "stop")
	w.runOnly(50, "stop-begins", t)
	vrtAssert(atomic.LoadInt32(&t.state) == killing && s.state == running, "setup-target-lingers-in-killing")
	b.TellSelf(&vhBoom{})
	w.runOnly(200, "sibling-fails", b, p, t)
	vrtAssert(atomic.LoadInt32(&t.state) == killing, "setup-target-lingers-in-killing")
	if w.boxes[t].paused {
		vrtReach("paused-again-while-stopping")
	}
	w.root.tell(false, t.ref, &vhUserMsg{N: 2}) // while (possibly) paused
	w.run(800, "terminates")                    // the slow child finally terminates, t follows
	vrtAssert(t.state == killed, "target-terminated")
	w.root.tell(false, t.ref, &vhUserMsg{N: 3}) // afterwards, through the reference with the cached mailbox
	w.run(800, "terminates")
	for _, n := range []int{2, 3} {
		processed := vhSeenUser(ta, n)
		dead := 0
		for _, e := range w.boxes[rec].all {
			if d, ok := e.Message().(ves.DeathLetterEvent); ok {
				if u, ok := d.Envelope.Message().(*vhUserMsg); ok && u.N == n {
					dead++
				}
			}
		}
		vrtAssert(processed+dead == 1, "exactly-one-fate")
	}
	vrtAssert(len(w.boxes[t].usr) == 0, "no-mail-parked-in-a-terminated-actor")
}
