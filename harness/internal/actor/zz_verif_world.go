//go:build verif

package actor

import (
	"context"
	"reflect"

	"github.com/kercylan98/vivid"
	"github.com/kercylan98/vivid/internal/guard"
	"github.com/kercylan98/vivid/internal/scheduler"
	"github.com/kercylan98/vivid/pkg/ves"
)

// A harness-built mini actor system: the real System / Context / eventStream /
// guard actor / supervision code, with recording mailboxes instead of the
// goroutine-driven UnboundedMailbox so that the harness delivers one envelope
// at a time ("one step of the state machine from a constructed state").

// vhBox is a recording mailbox with the documented mailbox semantics:
// system envelopes before user envelopes, user envelopes wait while paused.
type vhBox struct {
	name    string
	sys     []vivid.Envelop
	usr     []vivid.Envelop
	paused  bool
	pauses  int
	resumes int
	all     []vivid.Envelop // every envelope ever enqueued, in order
}

// vhOnEnqueue, when set, observes every envelope at the instant it is put into
// a recording mailbox (i.e. at the instant the sender reports something).
var vhOnEnqueue func(b *vhBox, e vivid.Envelop)

func (b *vhBox) Enqueue(e vivid.Envelop) {
	if vhOnEnqueue != nil {
		vhOnEnqueue(b, e)
	}
	b.all = append(b.all, e)
	if e.System() {
		b.sys = append(b.sys, e)
	} else {
		b.usr = append(b.usr, e)
	}
}
func (b *vhBox) Pause()         { b.paused = true; b.pauses++ }
func (b *vhBox) Resume()        { b.paused = false; b.resumes++ }
func (b *vhBox) IsPaused() bool { return b.paused }

// next pops the next deliverable envelope (nil if none).
func (b *vhBox) next() vivid.Envelop {
	if len(b.sys) > 0 {
		e := b.sys[0]
		b.sys = b.sys[1:]
		return e
	}
	if !b.paused && len(b.usr) > 0 {
		e := b.usr[0]
		b.usr = b.usr[1:]
		return e
	}
	return nil
}

// vhActor records everything its behaviour sees and can be told to misbehave.
type vhActor struct {
	name        string
	seen        []vivid.Message
	panicOn     func(m vivid.Message) bool
	onMsg       func(ctx vivid.ActorContext, m vivid.Message)
	incarnation int
}

func (a *vhActor) OnReceive(ctx vivid.ActorContext) {
	m := ctx.Message()
	a.seen = append(a.seen, m)
	if a.onMsg != nil {
		a.onMsg(ctx, m)
	}
	if a.panicOn != nil && a.panicOn(m) {
		panic("vh-fault")
	}
}

// vhHookActor additionally implements the restart / prelaunch hooks.
type vhHookActor struct {
	vhActor
	preRestart, restarted, prelaunch int // 0 ok, 1 error, 2 panic
	hookCalls                        []string
}

func vhHookOutcome(kind int) error {
	switch kind {
	case 1:
		return vivid.ErrorIllegalArgument
	case 2:
		panic("vh-hook-panic")
	}
	return nil
}

func (a *vhHookActor) OnPreRestart(ctx vivid.RestartContext) error {
	a.hookCalls = append(a.hookCalls, "prerestart")
	return vhHookOutcome(a.preRestart)
}
func (a *vhHookActor) OnRestarted(ctx vivid.RestartContext) error {
	a.hookCalls = append(a.hookCalls, "restarted")
	return vhHookOutcome(a.restarted)
}
func (a *vhHookActor) OnPrelaunch(ctx vivid.PrelaunchContext) error {
	a.hookCalls = append(a.hookCalls, "prelaunch")
	return vhHookOutcome(a.prelaunch)
}

type vhWorld struct {
	sys     *System
	root    *Context
	rootBox *vhBox
	boxes   map[*Context]*vhBox
	order   []*Context
	quartz  *scheduler.VrtFakeQuartz
}

func vhNewWorld() *vhWorld { return vhNewWorldAt("") }

// vhNewWorldAt builds a world whose root (and therefore every actor) lives at
// the given advertise address ("" = localhost).
func vhNewWorldAt(addr string) *vhWorld {
	opts := vivid.NewActorSystemOptions()
	opts.RemotingAdvertiseAddress = addr
	sys := &System{
		options:           opts,
		futureAgents:      make(map[vivid.ActorPath]map[vivid.ActorPath]*AgentRef),
		guardClosedSignal: make(chan struct{}),
	}
	sys.options.Context, sys.cancel = context.WithCancel(context.Background())
	sys.eventStream = newEventStream(sys)
	w := &vhWorld{sys: sys, boxes: map[*Context]*vhBox{}}
	w.quartz = scheduler.VrtNewFakeQuartz()
	sys.scheduler = scheduler.VrtNewScheduler(w.quartz)
	root, err := NewContext(sys, nil, guard.NewActor(sys.guardClosedSignal))
	vrtAssert(err == nil, "world-root-context")
	w.rootBox = &vhBox{name: "/"}
	root.mailbox = w.rootBox
	sys.Context = root
	sys.appendActorContext(root)
	w.root = root
	w.boxes[root] = w.rootBox
	w.order = append(w.order, root)
	return w
}

// spawn builds a child of parent with the real NewContext (real option
// handling, ref construction, prelaunch hook, behaviour stack), registers it
// like ActorOf does, and swaps in a recording mailbox. OnLaunch is NOT sent;
// the harness delivers lifecycle messages itself.
func (w *vhWorld) spawn(parent *Context, name string, actor vivid.Actor, options ...vivid.ActorOption) *Context {
	options = append([]vivid.ActorOption{vivid.WithActorName(name)}, options...)
	ctx, err := NewContext(w.sys, parent.ref, actor, options...)
	vrtAssert(err == nil, "world-spawn")
	box := &vhBox{name: ctx.ref.GetPath()}
	ctx.mailbox = box
	vrtAssert(!w.sys.appendActorContext(ctx), "world-spawn-unique")
	if parent.children == nil {
		parent.children = make(map[vivid.ActorPath]vivid.ActorRef)
	}
	parent.children[ctx.ref.GetPath()] = ctx.ref
	w.boxes[ctx] = box
	w.order = append(w.order, ctx)
	return ctx
}

// step delivers one envelope somewhere (creation order, system first).
func (w *vhWorld) step() bool {
	for _, c := range w.order {
		if e := w.boxes[c].next(); e != nil {
			c.HandleEnvelop(e)
			return true
		}
	}
	return false
}

// run delivers until quiescence; the bound guards against self-feeding loops.
func (w *vhWorld) run(max int, name string) int {
	n := 0
	for w.step() {
		n++
		vrtAssert(n <= max, name)
	}
	return n
}

// deliver hands exactly one envelope to ctx, bypassing its box.
func (w *vhWorld) deliver(ctx *Context, e vivid.Envelop) { ctx.HandleEnvelop(e) }

func vhCountSeen[T any](a *vhActor) int {
	n := 0
	for _, m := range a.seen {
		if _, ok := m.(T); ok {
			n++
		}
	}
	return n
}

// vhSub is an event-stream subscriber context recording deliveries.
type vhEvtA struct{ N int }
type vhEvtB struct{ N int }

func vhDeathLetters(w *vhWorld) []ves.DeathLetterEvent {
	var out []ves.DeathLetterEvent
	for _, e := range w.rootBox.all {
		if d, ok := e.Message().(ves.DeathLetterEvent); ok {
			out = append(out, d)
		}
	}
	return out
}

func reflectTypeOf(v any) reflect.Type { return reflect.TypeOf(v) }
