//go:build verif

package cluster

import (
	"time"

	"github.com/kercylan98/vivid"
	"github.com/kercylan98/vivid/internal/messages"
	"github.com/kercylan98/vivid/internal/remoting/serialize"
)

// C12 — envelope round trip for every cluster message type.

type vhEnv struct {
	system           bool
	sender, receiver vivid.ActorRef
	msg              vivid.Message
}

func (e *vhEnv) System() bool             { return e.system }
func (e *vhEnv) Sender() vivid.ActorRef   { return e.sender }
func (e *vhEnv) Receiver() vivid.ActorRef { return e.receiver }
func (e *vhEnv) Message() vivid.Message   { return e.msg }

type vhRef struct{ addr, path string }

func (r *vhRef) GetAddress() string               { return r.addr }
func (r *vhRef) GetPath() string                  { return r.path }
func (r *vhRef) Equals(o vivid.ActorRef) bool     { return o != nil && o.GetAddress() == r.addr && o.GetPath() == r.path }
func (r *vhRef) Clone() vivid.ActorRef            { c := *r; return &c }
func (r *vhRef) ToActorRefs() vivid.ActorRefs     { return vivid.ActorRefs{r} }
func (r *vhRef) String() string                   { return r.addr + r.path }

type vhUser struct{ Payload []byte }
type vhCodec struct{}

func (vhCodec) Encode(message any) ([]byte, error) {
	u, ok := message.(*vhUser)
	if !ok {
		return nil, vivid.ErrorIllegalArgument
	}
	return append([]byte{}, u.Payload...), nil
}
func (vhCodec) Decode(data []byte) (any, error) {
	return &vhUser{Payload: append([]byte{}, data...)}, nil
}

// vhStr returns a string with symbolic bytes. Lengths are not cross-multiplied
// over the fields of a message: one (base, step) pair is chosen per run and the
// n-th string of the run has length (base + n*step) mod (max+1), so every field
// sees every length and neighbouring fields see equal as well as different
// lengths, at 2*(max+1) runs instead of (max+1)^fields.
var vhStrBase, vhStrStep, vhStrN = -1, 0, 0

func vhStr(max int) string {
	if vhStrBase < 0 {
		vhStrBase = vrtChoose(max + 1)
		vhStrStep = vrtChoose(2)
	}
	n := (vhStrBase + vhStrN*vhStrStep) % (max + 1)
	vhStrN++
	return vrtString(n)
}

func vhBytes(max int) []byte {
	if vhStrBase < 0 {
		vhStrBase = vrtChoose(max + 1)
		vhStrStep = vrtChoose(2)
	}
	n := (vhStrBase + vhStrN*vhStrStep) % (max + 1)
	vhStrN++
	return vrtBytes(n)
}

// int fields that travel as int32: the stated validity predicate.
func vhInt32Range() int {
	v := vrtInt32()
	return int(v)
}

func vhMapSS(maxn, maxlen int) map[string]string {
	switch vrtChoose(maxn + 2) {
	case 0:
		return nil
	case 1:
		return map[string]string{}
	case 2:
		return map[string]string{"k" + vhStr(maxlen): vhStr(maxlen)}
	default:
		return map[string]string{"a" + vhStr(maxlen): vhStr(maxlen), "b" + vhStr(maxlen): vhStr(maxlen)}
	}
}

func vhNodeState(id string, maxlen int) *NodeState {
	return &NodeState{
		ID: id, ClusterName: vhStr(maxlen), Address: vhStr(maxlen),
		Generation: vhInt32Range(), Timestamp: vrtInt64(), SeqNo: vrtUint64(),
		Status: MemberStatus(vhInt32Range()), Unreachable: vrtBool(), LastSeen: vrtInt64(), LogicalClock: vrtUint64(),
		Metadata: vhMapSS(1, maxlen), Labels: vhMapSS(1, maxlen), Checksum: vrtUint32(),
	}
}

func vhSameMapSS(a, b map[string]string, name string) {
	// nil and empty are identified (the wire format does not distinguish them)
	vrtAssert(len(a) == len(b), name)
	for k, v := range a {
		w, ok := b[k]
		vrtAssert(ok && w == v, name)
	}
}

func vhSameNodeState(a, b *NodeState, name string) {
	vrtAssert((a == nil) == (b == nil), name)
	if a == nil || b == nil {
		return
	}
	vrtAssert(a.ID == b.ID && a.ClusterName == b.ClusterName && a.Address == b.Address, name)
	vrtAssert(a.Generation == b.Generation && a.Timestamp == b.Timestamp && a.SeqNo == b.SeqNo, name)
	vrtAssert(a.Status == b.Status && a.Unreachable == b.Unreachable && a.LastSeen == b.LastSeen, name)
	vrtAssert(a.LogicalClock == b.LogicalClock && a.Checksum == b.Checksum, name)
	vhSameMapSS(a.Metadata, b.Metadata, name)
	vhSameMapSS(a.Labels, b.Labels, name)
}

func vhView(maxmembers, maxlen int) *ClusterView {
	if vrtChoose(2) == 0 {
		return nil
	}
	v := &ClusterView{
		ViewID: vhStr(maxlen), Epoch: vrtInt64(), Timestamp: vrtInt64(),
		Members:      map[string]*NodeState{},
		HealthyCount: vhInt32Range(), UnhealthyCount: vhInt32Range(), QuorumSize: vhInt32Range(),
		VersionVector: vhVV(2), ProtocolVersion: vrtUint16(), MaxVersionVectorEntries: vhInt32Range(),
	}
	n := vrtChoose(maxmembers + 1)
	for i := 0; i < n; i++ {
		id := vhIDs[i]
		if i == 0 && vrtChoose(2) == 1 {
			// the map key and the ID inside the state are two fields of the value:
			// they need not be equal (alias key, zero state)
			v.Members[id] = vhNodeState("other-"+id, maxlen)
			vrtReach("member-key-differs-from-state-id")
			continue
		}
		v.Members[id] = vhNodeState(id, maxlen)
	}
	return v
}

func vhSameView(a, b *ClusterView, name string) {
	vrtAssert((a == nil) == (b == nil), name)
	if a == nil || b == nil {
		return
	}
	vrtAssert(a.ViewID == b.ViewID && a.Epoch == b.Epoch && a.Timestamp == b.Timestamp, name)
	vrtAssert(a.HealthyCount == b.HealthyCount && a.UnhealthyCount == b.UnhealthyCount && a.QuorumSize == b.QuorumSize, name)
	vrtAssert(a.ProtocolVersion == b.ProtocolVersion && a.MaxVersionVectorEntries == b.MaxVersionVectorEntries, name)
	vrtAssert(len(a.Members) == len(b.Members), name)
	for id, s := range a.Members {
		t, ok := b.Members[id]
		vrtAssert(ok, name)
		vhSameNodeState(s, t, name)
	}
	vrtAssert(len(a.VersionVector.m) == len(b.VersionVector.m), name)
	for k, c := range a.VersionVector.m {
		d, ok := b.VersionVector.m[k]
		vrtAssert(ok && c == d, name)
	}
}

var vhC12ClusterNames = []string{"JoinRequest", "JoinResponse", "GossipMessage", "GetViewResponse", "LeaveBroadcastRound",
	"JoinRetryTick", "ForceMemberDown", "TriggerViewBroadcast", "singletonForwardedMessage", "empty-bodied"}

// VH_C12_cluster_envelope: envelope round trip of the cluster message selected
// by param "type".
func VH_C12_cluster_envelope() {
	typ := vrtParam("type", 0)
	maxlen := vrtParam("maxlen", 1)
	maxmem := vrtParam("members", 1)
	var msg vivid.Message
	var check func(got vivid.Message)
	switch vhC12ClusterNames[typ] {
	case "JoinRequest":
		m := &JoinRequest{AuthToken: vhStr(maxlen)}
		if vrtChoose(2) == 1 {
			m.NodeState = vhNodeState(vhStr(maxlen), maxlen)
		}
		msg = m
		check = func(got vivid.Message) {
			g, ok := got.(*JoinRequest)
			vrtAssert(ok && g.AuthToken == m.AuthToken, "roundtrip-equal")
			vhSameNodeState(m.NodeState, g.NodeState, "roundtrip-equal")
		}
	case "JoinResponse":
		m := &JoinResponse{View: vhView(maxmem, maxlen)}
		msg = m
		check = func(got vivid.Message) {
			g, ok := got.(*JoinResponse)
			vrtAssert(ok, "roundtrip-equal")
			vhSameView(m.View, g.View, "roundtrip-equal")
		}
	case "GossipMessage":
		m := &GossipMessage{View: vhView(maxmem, maxlen)}
		msg = m
		check = func(got vivid.Message) {
			g, ok := got.(*GossipMessage)
			vrtAssert(ok, "roundtrip-equal")
			vhSameView(m.View, g.View, "roundtrip-equal")
		}
	case "GetViewResponse":
		m := &GetViewResponse{View: vhView(maxmem, maxlen), InQuorum: vrtBool(), LeaderAddr: vhStr(maxlen)}
		msg = m
		check = func(got vivid.Message) {
			g, ok := got.(*GetViewResponse)
			vrtAssert(ok && g.InQuorum == m.InQuorum && g.LeaderAddr == m.LeaderAddr, "roundtrip-equal")
			vhSameView(m.View, g.View, "roundtrip-equal")
		}
	case "LeaveBroadcastRound":
		m := &LeaveBroadcastRound{Round: vhInt32Range()}
		msg = m
		check = func(got vivid.Message) {
			g, ok := got.(*LeaveBroadcastRound)
			vrtAssert(ok && g.Round == m.Round, "roundtrip-equal")
		}
	case "JoinRetryTick":
		m := &JoinRetryTick{NextDelay: time.Duration(vrtInt64())}
		msg = m
		check = func(got vivid.Message) {
			g, ok := got.(*JoinRetryTick)
			vrtAssert(ok && g.NextDelay == m.NextDelay, "roundtrip-equal")
		}
	case "ForceMemberDown":
		m := &ForceMemberDown{NodeID: vhStr(maxlen), AdminToken: vhStr(maxlen)}
		msg = m
		check = func(got vivid.Message) {
			g, ok := got.(*ForceMemberDown)
			vrtAssert(ok && g.NodeID == m.NodeID && g.AdminToken == m.AdminToken, "roundtrip-equal")
		}
	case "TriggerViewBroadcast":
		m := &TriggerViewBroadcast{AdminToken: vhStr(maxlen)}
		msg = m
		check = func(got vivid.Message) {
			g, ok := got.(*TriggerViewBroadcast)
			vrtAssert(ok && g.AdminToken == m.AdminToken, "roundtrip-equal")
		}
	case "singletonForwardedMessage":
		m := &singletonForwardedMessage{}
		wantAddr, wantPath := "", ""
		switch vrtChoose(3) {
		case 1:
			m.senderAddr, m.senderPath = vhStr(maxlen), vhStr(maxlen)
			wantAddr, wantPath = m.senderAddr, m.senderPath
		case 2:
			r := &vhRef{addr: vhStr(maxlen), path: vhStr(maxlen)}
			m.sender = r
			wantAddr, wantPath = r.addr, r.path
		}
		var innerCheck func(got vivid.Message)
		if vrtChoose(2) == 0 {
			u := &vhUser{Payload: vhBytes(maxlen)}
			m.message = u
			innerCheck = func(got vivid.Message) {
				g, ok := got.(*vhUser)
				vrtAssert(ok && len(g.Payload) == len(u.Payload), "roundtrip-equal")
				for i := range u.Payload {
					vrtAssert(g.Payload[i] == u.Payload[i], "roundtrip-equal")
				}
			}
		} else {
			p := &messages.PingMessage{Time: time.Unix(0, vrtInt64())}
			m.message = p
			innerCheck = func(got vivid.Message) {
				g, ok := got.(*messages.PingMessage)
				vrtAssert(ok && g.Time.UnixNano() == p.Time.UnixNano(), "roundtrip-equal")
			}
		}
		msg = m
		check = func(got vivid.Message) {
			g, ok := got.(*singletonForwardedMessage)
			vrtAssert(ok && g.senderAddr == wantAddr && g.senderPath == wantPath, "roundtrip-equal")
			innerCheck(g.message)
		}
	case "empty-bodied":
		msgs := []vivid.Message{&GossipTick{}, &GossipCrossDCTick{}, &FailureDetectionTick{}, &GetViewRequest{}, &LeaveRequest{}, &LeaveAck{}, &ExitingReady{}}
		k := vrtChoose(len(msgs))
		msg = msgs[k]
		check = func(got vivid.Message) {
			ok := false
			switch k {
			case 0:
				_, ok = got.(*GossipTick)
			case 1:
				_, ok = got.(*GossipCrossDCTick)
			case 2:
				_, ok = got.(*FailureDetectionTick)
			case 3:
				_, ok = got.(*GetViewRequest)
			case 4:
				_, ok = got.(*LeaveRequest)
			case 5:
				_, ok = got.(*LeaveAck)
			case 6:
				_, ok = got.(*ExitingReady)
			}
			vrtAssert(ok, "roundtrip-equal")
		}
	}
	env := &vhEnv{system: vrtBool(), msg: msg}
	var sa, sp, ra, rp string
	if vrtChoose(2) == 1 {
		sa, sp = vhStr(maxlen), vhStr(maxlen)
		env.sender = &vhRef{sa, sp}
	}
	if vrtChoose(2) == 1 {
		ra, rp = vhStr(maxlen), vhStr(maxlen)
		env.receiver = &vhRef{ra, rp}
	}
	data, err := serialize.EncodeEnvelopWithRemoting(vhCodec{}, env)
	vrtAssert(err == nil, "encode-ok")
	vrtReach("encoded")
	sys2, sa2, sp2, ra2, rp2, got, err := serialize.DecodeEnvelopWithRemoting(vhCodec{}, data)
	vrtAssert(err == nil, "decode-ok")
	vrtReach("decoded")
	vrtAssert(sys2 == env.system && sa2 == sa && sp2 == sp && ra2 == ra && rp2 == rp, "envelope-meta-equal")
	check(got)
}
