//go:build verif

package cluster

import "github.com/kercylan98/vivid/internal/messages"

// C13 — totality of the cluster readers (registered messages, version vector,
// node state, cluster view).

var vhC13ClusterReaders = []string{"clusterJoinRequest", "clusterJoinResponse", "clusterGossip", "clusterGetViewResponse",
	"clusterLeaveBroadcastRound", "clusterJoinRetryTick", "clusterForceMemberDown", "clusterTriggerViewBroadcast",
	"clusterSingletonForwardedMessage", "clusterGossipTick"}

func vhNoPanic(name string, f func()) {
	defer func() {
		if r := recover(); r != nil {
			if _, mine := r.(vrtAssertFailed); mine {
				panic(r)
			}
			if _, mine := r.(vrtAssumeFailed); mine {
				panic(r)
			}
			if _, mine := r.(vrtExhausted); mine {
				panic(r)
			}
			vrtAssert(false, name)
		}
	}()
	f()
}

// VH_C13_cluster_reader_total: the registered cluster reader selected by "type"
// on every byte string of length 0..N (fully symbolic).
func VH_C13_cluster_reader_total() {
	typ := vrtParam("type", 0)
	name := vhC13ClusterReaders[typ]
	bound := []int{12, 8, 8, 12, 6, 10, 12, 8, 20, 2}[typ] + vrtParam("extra", 0)
	n := vrtChoose(bound + 1)
	data := vrtBytes(n)
	vrtAllocBudget(vrtParam("budget", 65536))
	desc := messages.QueryMessageDescByName(name)
	vrtAssert(!desc.IsOutside(), "registered")
	vhNoPanic("decode-no-panic", func() {
		r := messages.NewReader(data)
		msg, err := messages.DeserializeRemotingMessage(vhCodec{}, r, desc)
		if err == nil {
			vrtReach("decoded-ok")
			vrtAssert(msg != nil, "ok-implies-value")
		} else {
			vrtReach("decode-error")
		}
	})
}

// VH_C13_vv_total: ReadVersionVector / readNodeState / readClusterView /
// readMapStringString directly on symbolic bytes.
func VH_C13_vv_total() {
	what := vrtParam("what", 0)
	bound := []int{14, 12, 12, 30}[what] + vrtParam("extra", 0)
	n := vrtChoose(bound + 1)
	data := vrtBytes(n)
	vrtAllocBudget(vrtParam("budget", 65536))
	vhNoPanic("decode-no-panic", func() {
		switch what {
		case 0:
			v, err := ReadVersionVector(messages.NewReader(data))
			if err == nil {
				vrtReach("decoded-ok")
				for _, c := range v.m {
					vrtAssert(c <= maxCounterValue, "decoded-counter-within-max")
				}
				vrtAssert(len(v.m) <= maxVersionVectorEntries, "decoded-size-within-max")
			} else {
				vrtReach("decode-error")
			}
		case 1:
			_, err := readMapStringString(messages.NewReader(data))
			if err == nil {
				vrtReach("decoded-ok")
			} else {
				vrtReach("decode-error")
			}
		case 2:
			_, err := readNodeState(messages.NewReader(data))
			if err == nil {
				vrtReach("decoded-ok")
			} else {
				vrtReach("decode-error")
			}
		case 3:
			_, err := readClusterView(messages.NewReader(data))
			if err == nil {
				vrtReach("decoded-ok")
			} else {
				vrtReach("decode-error")
			}
		}
	})
}
