//go:build verif

package cluster

import "github.com/kercylan98/vivid/internal/messages"

// C16 — version vectors form a lattice.

var vhIDs = []string{"n-a", "n-b", "n-c"}

// vhVV builds an arbitrary vector over the first n ids: every presence pattern
// (absent / present, explicit zero included), counters symbolic 64-bit within
// the documented maximum. shape 0 = zero value (nil map), 1 = initialised map.
func vhVV(n int) VersionVector {
	var v VersionVector
	if vrtChoose(2) == 1 {
		v = NewVersionVector()
		for i := 0; i < n; i++ {
			if vrtChoose(2) == 1 {
				c := vrtUint64()
				vrtAssume(c <= maxCounterValue)
				v.m[vhIDs[i]] = c
			}
		}
	}
	return v
}

type vhSnap struct {
	isNil bool
	keys  []string
	vals  []uint64
}

func vhSnapshot(v VersionVector) vhSnap {
	s := vhSnap{isNil: v.m == nil}
	for _, id := range vhIDs {
		if c, ok := v.m[id]; ok {
			s.keys = append(s.keys, id)
			s.vals = append(s.vals, c)
		}
	}
	return s
}

// vhUnchanged asserts that v still holds exactly the snapshot's entries.
func vhUnchanged(v VersionVector, s vhSnap, name string) {
	vrtAssert((v.m == nil) == s.isNil, name)
	vrtAssert(len(v.m) == len(s.keys), name)
	for i, k := range s.keys {
		c, ok := v.m[k]
		vrtAssert(ok, name)
		vrtAssert(c == s.vals[i], name)
	}
}

// vhRefOrder is the specification: point-wise comparison with default 0.
func vhRefOrder(a, b VersionVector, n int) VersionOrder {
	leq, geq := true, true
	for i := 0; i < n; i++ {
		x, y := a.Get(vhIDs[i]), b.Get(vhIDs[i])
		if x > y {
			leq = false
		}
		if x < y {
			geq = false
		}
	}
	switch {
	case leq && geq:
		return VersionEqual
	case leq:
		return VersionBefore
	case geq:
		return VersionAfter
	}
	return VersionConcurrent
}

func vhLeq(o VersionOrder) bool { return o == VersionBefore || o == VersionEqual }

// VH_C16_compare_pair: Compare agrees with the point-wise order for every pair,
// under every map iteration order; converse / symmetry laws; operands untouched.
func VH_C16_compare_pair() {
	n := vrtParam("ids", 2)
	a, b := vhVV(n), vhVV(n)
	sa, sb := vhSnapshot(a), vhSnapshot(b)
	vrtMapOrderAll(vrtParam("allorders", 1) == 1)
	ab := a.Compare(b)
	ba := b.Compare(a)
	aa := a.Compare(a)
	vrtMapOrderAll(false)
	want := vhRefOrder(a, b, n)
	vrtAssert(ab == want, "compare-is-pointwise-order")
	vrtAssert(aa == VersionEqual, "reflexive-equal")
	switch ab {
	case VersionEqual:
		vrtReach("equal")
		vrtAssert(ba == VersionEqual, "equal-symmetric")
	case VersionBefore:
		vrtReach("before")
		vrtAssert(ba == VersionAfter, "before-after-converse")
	case VersionAfter:
		vrtReach("after")
		vrtAssert(ba == VersionBefore, "before-after-converse")
	case VersionConcurrent:
		vrtReach("concurrent")
		vrtAssert(ba == VersionConcurrent, "concurrent-symmetric")
	default:
		vrtAssert(false, "exactly-one-of-four")
	}
	vrtAssert(a.Equal(b) == (want == VersionEqual), "equal-iff-pointwise-equal")
	vrtAssert(a.HappensBefore(b) == (want == VersionBefore), "helpers-consistent")
	vrtAssert(a.HappensAfter(b) == (want == VersionAfter), "helpers-consistent")
	vrtAssert(a.IsConcurrentWith(b) == (want == VersionConcurrent), "helpers-consistent")
	vhUnchanged(a, sa, "operands-unmodified")
	vhUnchanged(b, sb, "operands-unmodified")
}

// VH_C16_merge_pair: Merge is the point-wise maximum, an upper bound of both,
// commutative, idempotent, and leaves its operands untouched.
func VH_C16_merge_pair() {
	n := vrtParam("ids", 2)
	a, b := vhVV(n), vhVV(n)
	sa, sb := vhSnapshot(a), vhSnapshot(b)
	m1 := a.Merge(b)
	m2 := b.Merge(a)
	for i := 0; i < n; i++ {
		x, y := a.Get(vhIDs[i]), b.Get(vhIDs[i])
		mx := x
		if y > mx {
			mx = y
		}
		vrtAssert(m1.Get(vhIDs[i]) == mx, "merge-is-pointwise-max")
		vrtAssert(m2.Get(vhIDs[i]) == mx, "merge-commutative")
		_, inA := a.m[vhIDs[i]]
		_, inB := b.m[vhIDs[i]]
		_, inM := m1.m[vhIDs[i]]
		vrtAssert(inM == (inA || inB), "merge-keys-are-union")
	}
	vrtAssert(m1.Equal(m2), "merge-commutative")
	vrtAssert(vhLeq(a.Compare(m1)) && vhLeq(b.Compare(m1)), "merge-upper-bound")
	vrtAssert(m1.Compare(a) != VersionBefore && m1.Compare(b) != VersionBefore, "merge-not-before-argument")
	vrtAssert(m1.Compare(a) != VersionConcurrent && m1.Compare(b) != VersionConcurrent, "merge-upper-bound")
	id := a.Merge(a)
	vrtAssert(id.Equal(a), "merge-idempotent")
	for i := 0; i < n; i++ {
		vrtAssert(id.Get(vhIDs[i]) == a.Get(vhIDs[i]), "merge-idempotent")
	}
	vhUnchanged(a, sa, "operands-unmodified")
	vhUnchanged(b, sb, "operands-unmodified")
	// the result is independent storage
	if m1.m != nil {
		m1.m["zz"] = 7
		vhUnchanged(a, sa, "result-does-not-alias-operand")
		vhUnchanged(b, sb, "result-does-not-alias-operand")
	}
	vrtReach("merged")
}

// VH_C16_increment: Increment is strictly After, +1 on exactly that node,
// error exactly at the maximum counter, operand untouched.
func VH_C16_increment() {
	n := vrtParam("ids", 2)
	a := vhVV(n)
	sa := vhSnapshot(a)
	k := vrtChoose(n)
	id := vhIDs[k]
	before := a.Get(id)
	r, err := a.Increment(id)
	if before >= maxCounterValue {
		vrtReach("overflow")
		vrtAssert(err != nil, "increment-overflow-is-error")
	} else {
		vrtAssert(err == nil, "increment-ok-below-max")
		vrtAssert(r.Get(id) == before+1, "increment-adds-one")
		for i := 0; i < n; i++ {
			if i != k {
				vrtAssert(r.Get(vhIDs[i]) == a.Get(vhIDs[i]), "increment-touches-only-node")
			}
		}
		vrtAssert(r.Compare(a) == VersionAfter, "increment-strictly-after")
		vrtAssert(a.Compare(r) == VersionBefore, "increment-strictly-after")
		vrtReach("incremented")
	}
	vhUnchanged(a, sa, "operands-unmodified")
	_, err = a.Increment("")
	vrtAssert(err != nil, "increment-empty-node-is-error")
}

// VH_C16_triple: transitivity, associativity, least upper bound.
func VH_C16_triple() {
	n := vrtParam("ids", 2)
	a, b, c := vhVV(n), vhVV(n), vhVV(n)
	ab, bc, ac := a.Compare(b), b.Compare(c), a.Compare(c)
	if vhLeq(ab) && vhLeq(bc) {
		vrtReach("chain")
		vrtAssert(vhLeq(ac), "leq-transitive")
		if ab == VersionBefore || bc == VersionBefore {
			vrtAssert(ac == VersionBefore, "before-transitive")
		}
	}
	if ab == VersionEqual && bc == VersionEqual {
		vrtAssert(ac == VersionEqual, "equal-transitive")
	}
	l := a.Merge(b).Merge(c)
	r := a.Merge(b.Merge(c))
	vrtAssert(l.Equal(r), "merge-associative")
	for i := 0; i < n; i++ {
		vrtAssert(l.Get(vhIDs[i]) == r.Get(vhIDs[i]), "merge-associative")
	}
	// least upper bound: any c above both a and b is above their merge
	if vhLeq(ac) && vhLeq(bc) {
		vrtReach("upper-bound")
		vrtAssert(vhLeq(a.Merge(b).Compare(c)), "merge-least-upper-bound")
	}
}

// VH_C16_serialise: Read(Write(v)) has exactly v's entries and consumes all bytes.
func VH_C16_serialise() {
	n := vrtParam("ids", 2)
	a := vhVV(n)
	sa := vhSnapshot(a)
	w := messages.NewWriter()
	err := WriteVersionVector(w, a)
	vrtAssert(err == nil, "write-ok")
	data := w.Bytes()
	r := messages.NewReader(data)
	got, err := ReadVersionVector(r)
	vrtAssert(err == nil, "read-ok")
	vrtAssert(len(got.m) == len(sa.keys), "roundtrip-same-entries")
	for i, k := range sa.keys {
		c, ok := got.m[k]
		vrtAssert(ok, "roundtrip-same-entries")
		vrtAssert(c == sa.vals[i], "roundtrip-same-entries")
	}
	vrtAssert(got.Equal(a) && a.Equal(got), "roundtrip-equal")
	vrtAssert(r.RemainingSize() == 0, "reader-consumed-all")
	vhUnchanged(a, sa, "operands-unmodified")
	vrtReach("roundtrip")
}

// VH_C16_serialise_long_id: node ids up to the documented bound (256 bytes, the
// longest Increment accepts) survive serialisation like short ones.
func VH_C16_serialise_long_id() {
	lens := []int{1, 2, 127, 128, 254, 255, 256}
	l := lens[vrtChoose(len(lens))]
	id := make([]byte, l)
	for i := range id {
		id[i] = 'a' + byte(i%26)
	}
	v := NewVersionVector()
	v2, err := v.Increment(string(id))
	vrtAssert(err == nil, "increment-accepts-documented-id-length")
	c := vrtUint64()
	vrtAssume(c >= 1 && c <= maxCounterValue)
	v2.m[string(id)] = c
	if vrtChoose(2) == 1 {
		v2.m["n-b"] = 7
	}
	v2.dirty = true
	w := messages.NewWriter()
	vrtAssert(WriteVersionVector(w, v2) == nil, "write-ok")
	got, err := ReadVersionVector(messages.NewReader(w.Bytes()))
	vrtAssert(err == nil, "read-ok")
	vrtAssert(len(got.m) == len(v2.m) && got.m[string(id)] == c, "roundtrip-same-entries")
	vrtAssert(got.Equal(v2) && v2.Equal(got), "roundtrip-equal")
	if l == 256 {
		vrtReach("longest-id")
	}
}

// VH_C16_merge_wide: vectors as wide as the documented cap (65535 entries) and
// just below it, merged with a vector that knows a node the wide one does not:
// the merge is still the join (contains every component of both, commutes, is
// not Before either argument), whatever internal size estimates say.
func VH_C16_merge_wide() {
	n := []int{65533, 65534, 65535}[vrtChoose(3)]
	a := NewVersionVector()
	a.m = make(map[string]uint64, n)
	id := func(i int) string {
		b := []byte("w000000")
		for p := len(b) - 1; p > 0 && i > 0; p-- {
			b[p] = byte('0' + i%10)
			i /= 10
		}
		return string(b)
	}
	for i := 0; i < n; i++ {
		a.m[id(i)] = uint64(1 + i%3)
	}
	a.dirty = true
	// the counters are a concrete choice here: this job is about sizes (a symbolic
	// counter would make every one of the 65k loop iterations of Compare a solver decision)
	ca := []uint64{1, 5}[vrtChoose(2)]
	cb := uint64(3)
	b := NewVersionVector()
	b.m = map[string]uint64{"new-node": cb, id(0): ca}
	b.dirty = true
	ab, ba := a.Merge(b), b.Merge(a)
	vrtAssert(ab.Get("new-node") == cb && ba.Get("new-node") == cb, "merge-is-upper-bound")
	want0 := uint64(1)
	if ca > want0 {
		want0 = ca
	}
	vrtAssert(ab.Get(id(0)) == want0 && ba.Get(id(0)) == want0, "merge-is-upper-bound")
	vrtAssert(ab.Get(id(n-1)) == uint64(1+(n-1)%3) && ba.Get(id(n-1)) == uint64(1+(n-1)%3), "merge-is-upper-bound")
	vrtAssert(len(ab.m) == n+1 && len(ba.m) == n+1, "merge-commutative")
	vrtAssert(ab.Compare(b) != VersionBefore && ab.Compare(b) != VersionConcurrent, "merge-is-upper-bound")
	vrtAssert(ba.Compare(a) != VersionBefore && ba.Compare(a) != VersionConcurrent, "merge-is-upper-bound")
	if n == 65535 {
		vrtReach("at-the-cap")
	}
}
