//go:build verif

package cluster

import "time"

// C17 — cluster-view merge is order-insensitive and never regresses a member.

// vhMember builds an arbitrary reachable member state for id: Generation in
// int32 range and >= 0, LogicalClock >= 1 (newNodeState sets 1, it is only ever
// incremented), everything else symbolic.
// vhLean makes the fields that cannot influence membership concrete (status Up,
// equal epochs/timestamps/protocol versions) so that jobs about membership
// algebra do not fork on them; the core job keeps them symbolic.
var vhLean, vhLeanEpoch bool

// vhStatusAlt: 0 every member Up; 1 the first id Suspect in every view, the
// others Up; 2 the second id Suspect in every view; 3 the first id Suspect only
// in the second view built; 4 only in the first view built (one choice per run)
var vhStatusAlt int

// vhViewNo counts the views built so far in this run.
var vhViewNo int

func vhMember(id string) *NodeState {
	g := vrtInt32()
	vrtAssume(g >= 0)
	lc := vrtUint64()
	vrtAssume(lc >= 1)
	// the status only feeds the healthy/unhealthy counters, which the
	// property does not mention: one choice per run instead of a symbolic value
	st := MemberStatusUp
	if !vhLean && ((vhStatusAlt == 1 && id == vhIDs[0]) || (vhStatusAlt == 2 && id == vhIDs[1]) ||
		(vhStatusAlt == 3 && id == vhIDs[0] && vhViewNo == 2) || (vhStatusAlt == 4 && id == vhIDs[0] && vhViewNo == 1)) {
		st = MemberStatusSuspect
	}
	return &NodeState{ID: id, ClusterName: "c", Address: "addr-" + id, Generation: int(g), LogicalClock: lc,
		Timestamp: vrtInt64(), Status: st, LastSeen: vrtInt64(), SeqNo: vrtUint64()}
}

// vhReachableView builds an arbitrary view satisfying the validity predicate of
// views produced by joins, restarts, status changes and earlier merges:
// members keyed by their own ID, non-nil; the version vector mentions only
// current members; MaxVersionVectorEntries == 0.
func vhReachableView(k int) *ClusterView {
	vhViewNo++
	v := &ClusterView{ViewID: "v", Epoch: 5, Timestamp: 7, Members: map[string]*NodeState{},
		VersionVector: NewVersionVector(), ProtocolVersion: ProtocolVersion}
	if !vhLean && !vhLeanEpoch {
		v.Epoch, v.Timestamp, v.ProtocolVersion = vrtInt64(), vrtInt64(), vrtUint16()
	}
	for i := 0; i < k; i++ {
		if vrtChoose(2) == 1 {
			id := vhIDs[i]
			v.Members[id] = vhMember(id)
			if vrtChoose(2) == 1 {
				c := vrtUint64()
				vrtAssume(c <= maxCounterValue)
				v.VersionVector.m[id] = c
			}
		}
	}
	v.recomputeCounts()
	return v
}

type vhAbs struct {
	present [3]bool
	gen     [3]int
	clock   [3]uint64
	ts      [3]int64
	status  [3]MemberStatus
	vvHas   [3]bool
	vv      [3]uint64
	epoch   int64
}

func vhAbstract(v *ClusterView, k int) vhAbs {
	var a vhAbs
	for i := 0; i < k; i++ {
		if m, ok := v.Members[vhIDs[i]]; ok && m != nil {
			a.present[i] = true
			a.gen[i], a.clock[i], a.ts[i], a.status[i] = m.Generation, m.LogicalClock, m.Timestamp, m.Status
		}
		a.vv[i], a.vvHas[i] = v.VersionVector.m[vhIDs[i]]
	}
	a.epoch = v.Epoch
	return a
}

// vhSameMembership: same member ids, each at the same (Generation, LogicalClock).
func vhSameMembership(a, b vhAbs, k int, name string) {
	for i := 0; i < k; i++ {
		vrtAssert(a.present[i] == b.present[i], name)
		if a.present[i] && b.present[i] {
			vrtAssert(a.gen[i] == b.gen[i] && a.clock[i] == b.clock[i], name)
		}
	}
}

func vhNewerOrSame(g1 int, c1 uint64, g2 int, c2 uint64) bool {
	return g1 > g2 || (g1 == g2 && c1 >= c2)
}

func vhOpts() MergeOptions {
	o := MergeOptions{VersionConcurrentStrategy: vrtChoose(3)}
	if vrtChoose(2) == 1 {
		s := vrtInt64()
		vrtAssume(s > 0)
		o.MaxClockSkew = time.Duration(s)
		vrtReach("skew-on")
	}
	return o
}

// VH_C17_merge_pair: union, newest incarnation, no regression, monotone epoch
// and member version-vector entries, changed flag, idempotence, commutativity.
func VH_C17_merge_pair() {
	vhStatusAlt = vrtChoose(vrtParam("statusalts", 5))
	k := vrtParam("ids", 2)
	// mode 0: membership dimension (epochs/timestamps/protocol concrete and
	// equal, no clock-skew option); mode 1: epoch dimension (symbolic epochs,
	// timestamps, protocol versions, skew option) over one member id. The two
	// dimensions are handled by independent statements of MergeFromWithOptions.
	var opts MergeOptions
	if vrtParam("mode", 0) == 0 {
		vhLeanEpoch = true
		opts = MergeOptions{VersionConcurrentStrategy: vrtChoose(3)}
	} else {
		k = 1
	}
	a, b := vhReachableView(k), vhReachableView(k)
	if !vhLeanEpoch {
		opts = vhOpts()
	}
	absA, absB := vhAbstract(a, k), vhAbstract(b, k)

	ab := a.Snapshot()
	changed := ab.MergeFromWithOptions(b, opts)
	res := vhAbstract(ab, k)

	anyDiff := false
	for i := 0; i < k; i++ {
		vrtAssert(res.present[i] == (absA.present[i] || absB.present[i]), "result-is-union-of-members")
		if absA.present[i] {
			vrtAssert(res.present[i], "never-removes-member")
			vrtAssert(vhNewerOrSame(res.gen[i], res.clock[i], absA.gen[i], absA.clock[i]), "never-regresses-member")
		}
		if res.present[i] {
			// newest incarnation over the inputs
			if absA.present[i] {
				vrtAssert(vhNewerOrSame(res.gen[i], res.clock[i], absA.gen[i], absA.clock[i]), "member-at-newest-incarnation")
			}
			if absB.present[i] {
				vrtAssert(vhNewerOrSame(res.gen[i], res.clock[i], absB.gen[i], absB.clock[i]), "member-at-newest-incarnation")
			}
			fromA := absA.present[i] && res.gen[i] == absA.gen[i] && res.clock[i] == absA.clock[i]
			fromB := absB.present[i] && res.gen[i] == absB.gen[i] && res.clock[i] == absB.clock[i]
			vrtAssert(fromA || fromB, "member-state-comes-from-an-input")
			// a member's version-vector entry (absent = 0) never goes down
			vrtAssert(res.vv[i] >= absA.vv[i], "member-vv-entry-never-lowered")
		}
		if res.present[i] != absA.present[i] || res.gen[i] != absA.gen[i] || res.clock[i] != absA.clock[i] ||
			res.ts[i] != absA.ts[i] || res.status[i] != absA.status[i] || res.vv[i] != absA.vv[i] {
			anyDiff = true
		}
	}
	vrtAssert(res.epoch >= absA.epoch, "epoch-never-lowered")
	if anyDiff {
		vrtReach("membership-or-vv-changed")
		vrtAssert(changed, "changed-reported-when-membership-or-vv-changed")
	}
	if !changed {
		vrtReach("unchanged")
		vrtAssert(!anyDiff && res.epoch == absA.epoch, "unchanged-means-unchanged")
	}

	// the argument is not modified and the result does not alias it
	vhSameMembership(vhAbstract(b, k), absB, k, "argument-unmodified")
	for i := 0; i < k; i++ {
		if m := b.Members[vhIDs[i]]; m != nil {
			m.LogicalClock++
			m.Generation++
		}
	}
	vhSameMembership(vhAbstract(ab, k), res, k, "stored-states-are-clones")
	vrtReach("merged")
}

// VH_C17_merge_commute: the membership produced does not depend on the
// direction of the merge; merging the same view again changes nothing.
func VH_C17_merge_commute() {
	vhLean = true
	k := vrtParam("ids", 2)
	a, b := vhReachableView(k), vhReachableView(k)
	opts := MergeOptions{VersionConcurrentStrategy: vrtChoose(3)}
	ab := a.Snapshot()
	ab.MergeFromWithOptions(b, opts)
	ba := b.Snapshot()
	ba.MergeFromWithOptions(a, opts)
	res := vhAbstract(ab, k)
	vhSameMembership(res, vhAbstract(ba, k), k, "merge-commutative-on-membership")
	again := ab.Snapshot()
	ch := again.MergeFromWithOptions(b, opts)
	vhSameMembership(vhAbstract(again, k), res, k, "merge-idempotent")
	vrtAssert(!ch, "merge-idempotent-reports-unchanged")
	vrtReach("merged")
}

// VH_C17_merge_idem: merging a view with itself changes nothing.
func VH_C17_merge_idem() {
	k := vrtParam("ids", 2)
	a := vhReachableView(k)
	absA := vhAbstract(a, k)
	aa := a.Snapshot()
	ch := aa.MergeFromWithOptions(a.Snapshot(), vhOpts())
	vhSameMembership(vhAbstract(aa, k), absA, k, "merge-idempotent")
	vrtAssert(!ch, "merge-idempotent-reports-unchanged")
	vrtAssert(aa.Epoch == a.Epoch, "merge-idempotent")
	vrtReach("merged")
}

// VH_C17_merge_triple: associativity and order-insensitivity over three views.
func VH_C17_merge_triple() {
	vhLean = true
	k := vrtParam("ids", 2)
	a, b, c := vhReachableView(k), vhReachableView(k), vhReachableView(k)
	opts := MergeOptions{VersionConcurrentStrategy: vrtChoose(3)}
	l := a.Snapshot()
	l.MergeFromWithOptions(b, opts)
	l.MergeFromWithOptions(c, opts)
	bc := b.Snapshot()
	bc.MergeFromWithOptions(c, opts)
	r := a.Snapshot()
	r.MergeFromWithOptions(bc, opts)
	vhSameMembership(vhAbstract(l, k), vhAbstract(r, k), k, "merge-associative-on-membership")
	o := c.Snapshot()
	o.MergeFromWithOptions(a, opts)
	o.MergeFromWithOptions(b, opts)
	vhSameMembership(vhAbstract(l, k), vhAbstract(o, k), k, "merge-order-insensitive")
	vrtReach("merged3")
}

// VH_C17_addmember: AddMember adopts exactly newer states, stores a clone.
func VH_C17_addmember() {
	k := vrtParam("ids", 2)
	v := vhReachableView(k)
	before := vhAbstract(v, k)
	i := vrtChoose(k)
	m := vhMember(vhIDs[i])
	v.AddMember(m)
	after := vhAbstract(v, k)
	vrtAssert(after.present[i], "addmember-present")
	if before.present[i] {
		vrtAssert(vhNewerOrSame(after.gen[i], after.clock[i], before.gen[i], before.clock[i]), "never-regresses-member")
	}
	vrtAssert(vhNewerOrSame(after.gen[i], after.clock[i], m.Generation, m.LogicalClock), "member-at-newest-incarnation")
	for j := 0; j < k; j++ {
		if j != i {
			vrtAssert(after.present[j] == before.present[j] && after.gen[j] == before.gen[j] && after.clock[j] == before.clock[j], "addmember-touches-only-that-member")
		}
	}
	m.Generation++
	vhSameMembership(vhAbstract(v, k), after, k, "stored-states-are-clones")
	vrtReach("added")
}
