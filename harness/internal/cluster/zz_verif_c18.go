//go:build verif

package cluster

// Accessors for the C18 harness (package internal/actor).

func VrtMembers(a *NodeActor) map[string]*NodeState { return a.clusterView.Members }
func VrtView(a *NodeActor) *ClusterView              { return a.clusterView }
func VrtSelf(a *NodeActor) *NodeState                { return a.nodeState }
