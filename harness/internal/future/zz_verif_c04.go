//go:build verif

package future

import (
	"github.com/kercylan98/vivid"
	"github.com/kercylan98/vivid/pkg/log"
)

// C04 — Engine B scenario for the one-shot future: completion by a reply, by
// the timeout and PipeTo / Result race each other on the real Future code.

type vhFwd struct{ name string }

func (r *vhFwd) GetAddress() string           { return "h:1" }
func (r *vhFwd) GetPath() string              { return "/" + r.name }
func (r *vhFwd) Equals(o vivid.ActorRef) bool { return o != nil && o.GetPath() == r.GetPath() }
func (r *vhFwd) Clone() vivid.ActorRef        { return r }
func (r *vhFwd) ToActorRefs() vivid.ActorRefs { return vivid.ActorRefs{r} }
func (r *vhFwd) String() string               { return r.name }

// vhGhostF observes the future from outside.
type vhGhostF struct {
	vivid.ActorLiaison
	closer     int8
	told       int8
	toldMsg    any
	toldErr    error
	waiterDone int8
	resMsg     any
	resErr     error
	piperDone  int8
}

func (g *vhGhostF) Logger() log.Logger { return nil }
func (g *vhGhostF) Tell(recipient vivid.ActorRef, message vivid.Message) {
	pr := message.(*vivid.PipeResult)
	vrtVisible("forwarder-told")
	g.told++
	g.toldMsg = pr.Message
	g.toldErr = pr.Error
}

// VS_C04_future_races: reply || timeout || PipeTo(one forwarder) || Result.
func VS_C04_future_races() {
	g := &vhGhostF{}
	f := NewFuture[vivid.Message](g, 0, func() { g.closer++ })
	fw := &vhFwd{name: "fw"}
	var m1 any = "reply-1"
	var errT error = vivid.ErrorFutureTimeout
	refs := vivid.ActorRefs{fw}
	vrtTokens(m1, errT, refs, vivid.ActorRef(fw))
	vrtShared(&f.closed, &f.mu, &f.forwarders)
	vrtRacy(&f.err, &f.message)
	vrtSharedChan(f.done)
	vrtShared(&g.closer, &g.told, &g.toldMsg, &g.toldErr, &g.waiterDone, &g.resMsg, &g.resErr, &g.piperDone)

	vrtThread("replier", func() { f.EnqueueMessage(m1) })
	vrtThread("timeout", func() { f.Close(errT) })
	vrtThread("piper", func() { _ = f.PipeTo(refs); g.piperDone = 1 })
	vrtThread("waiter", func() {
		m, err := f.Result()
		g.resMsg, g.resErr = m, err
		g.waiterDone = 1
	})

	vrtSafety("completion-side-effects-run-once", func() bool { return g.closer <= 1 })
	vrtSafety("forwarder-told-at-most-once", func() bool { return g.told <= 1 })
	vrtSafety("forwarder-never-gets-an-empty-result", func() bool {
		return !(g.told >= 1 && g.toldMsg == nil && g.toldErr == nil)
	})
	vrtSafety("result-never-returns-before-the-value-is-there", func() bool {
		return !(g.waiterDone == 1 && g.resMsg == nil && g.resErr == nil)
	})
	vrtFinal("nobody-blocked-forever", func() bool { return g.waiterDone == 1 && g.piperDone == 1 })
	vrtFinal("completed-exactly-once", func() bool { return g.closer == 1 })
	vrtFinal("forwarder-told-exactly-once", func() bool { return g.told == 1 })
	vrtFinal("forwarder-gets-the-final-result", func() bool {
		return g.toldMsg == g.resMsg && g.toldErr == g.resErr
	})
	vrtFinal("result-is-exactly-one-completion", func() bool {
		return (g.resMsg == m1 && g.resErr == nil) || (g.resMsg == nil && g.resErr == errT)
	})
}

// VrtIsClosed reports whether the future has completed (for harnesses in other packages).
func VrtIsClosed[T vivid.Message](f *Future[T]) bool { return f.closed.Load() }
