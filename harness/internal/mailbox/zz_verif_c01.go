//go:build verif

package mailbox

import (
	"sync"

	"github.com/kercylan98/vivid"
	"github.com/kercylan98/vivid/internal/queues"
)

// C01 / C02 — Engine B scenarios for the lock-free mailbox protocol. The
// scenario function builds the real objects; the threads call the real
// Enqueue / Pause / Resume; consumers are the real `go m.process()` goroutines.

type vhTok struct {
	id  int
	sys bool
}

func (e *vhTok) System() bool             { return e.sys }
func (e *vhTok) Sender() vivid.ActorRef   { return nil }
func (e *vhTok) Receiver() vivid.ActorRef { return nil }
func (e *vhTok) Message() vivid.Message   { return e.id }

const vhMaxTok = 3

// vhFifo is the ring summary.
type vhFifo struct {
	n     int8
	slots [3]interface{}
}

var vhFifos map[*queues.RingQueue]*vhFifo

func vhRingPush(q *queues.RingQueue, item any) {
	f := vhFifos[q]
	vrtVisible("ring-push")
	switch f.n {
	case 0:
		f.slots[0] = item
	case 1:
		f.slots[1] = item
	default:
		f.slots[2] = item
	}
	f.n++
}

func vhRingLength(q *queues.RingQueue) int64 {
	f := vhFifos[q]
	vrtVisible("ring-length")
	return int64(f.n)
}

func vhRingPop(q *queues.RingQueue) (any, bool) {
	f := vhFifos[q]
	vrtVisible("ring-empty-check")
	if f.n == 0 {
		return nil, false
	}
	vrtVisible("ring-pop-locked")
	if f.n == 0 {
		// a consumer that lost a race still pops: the real ring hands out an
		// empty slot with ok == true
		return nil, true
	}
	x := f.slots[0]
	f.slots[0], f.slots[1], f.slots[2] = f.slots[1], f.slots[2], nil
	f.n--
	return x, true
}

// vhGhost is the observer state: how many handler invocations are in flight,
// how often each message was handled, and the order of handling.
type vhGhost struct {
	mb       *UnboundedMailbox
	in       int32
	handled  [vhMaxTok]int32
	seq      int32
	pos      [vhMaxTok]int32 // 1-based handling position
	enq      [vhMaxTok]int32 // Enqueue returned
	sawPause int32           // a user message entered the handler while the consumer had seen paused==1
	action   int32           // S3: what the handler of message 0 does (symbolic)
	tokens   [vhMaxTok]*vhTok
}

func (g *vhGhost) HandleEnvelop(e vivid.Envelop) {
	t := e.(*vhTok)
	vrtVisible("handler-enter")
	g.in++
	g.handled[t.id]++
	g.seq++
	g.pos[t.id] = g.seq
	if t.id == 0 && g.action != 0 {
		switch g.action {
		case 1:
			g.mb.Enqueue(g.tokens[2])
			g.enq[2] = 1
		case 2:
			g.mb.Pause()
		case 3:
			g.mb.Resume()
		}
	}
	vrtVisible("handler-exit")
	g.in--
}

func vhScenario(ntok int, symbolicKinds bool) (*UnboundedMailbox, *vhGhost) {
	g := &vhGhost{}
	mb := NewUnboundedMailbox(4, g)
	g.mb = mb
	for i := 0; i < vhMaxTok; i++ {
		g.tokens[i] = &vhTok{id: i}
	}
	vrtTokens(vivid.Envelop(g.tokens[0]), vivid.Envelop(g.tokens[1]), vivid.Envelop(g.tokens[2]))
	vrtShared(&mb.status, &mb.paused, &mb.num, &mb.systemNum)
	// The two ring buffers are replaced by a summary: a bounded FIFO of tokens
	// with the same call structure as the real ring (unlocked emptiness check,
	// then the locked region as one atomic step). That Push/Pop behave as a FIFO
	// is what the C02 ring jobs of Engine A decide (from-init sequences and the
	// inductive step); growth never happens with <= 3 messages in capacity 4.
	fu, fs := &vhFifo{}, &vhFifo{}
	vhFifos = map[*queues.RingQueue]*vhFifo{mb.buffer: fu, mb.systemBuffer: fs}
	vrtShared(&fu.n, &fu.slots, &fs.n, &fs.slots)
	vrtRedirect("(*github.com/kercylan98/vivid/internal/queues.RingQueue).Push", vhRingPush)
	vrtRedirect("(*github.com/kercylan98/vivid/internal/queues.RingQueue).Pop", vhRingPop)
	vrtRedirect("(*github.com/kercylan98/vivid/internal/queues.RingQueue).Length", vhRingLength)
	vrtShared(&g.in, &g.handled, &g.seq, &g.pos, &g.enq, &g.sawPause)
	if symbolicKinds {
		for i := 0; i < ntok; i++ {
			vrtSharedSymbolic(&g.tokens[i].sys)
		}
	}
	return mb, g
}

func vhAllHandledOnce(g *vhGhost, mb *UnboundedMailbox, n int) bool {
	ok := true
	for i := 0; i < n; i++ {
		if g.enq[i] == 1 {
			if g.tokens[i].sys || mb.paused == 0 {
				if g.handled[i] != 1 {
					ok = false
				}
			}
		}
	}
	return ok
}

func vhRegisterCommon(g *vhGhost, mb *UnboundedMailbox, n int) {
	vrtSafety("one-handler-at-a-time", func() bool { return g.in <= 1 })
	vrtSafety("no-message-handled-twice", func() bool {
		return g.handled[0] <= 1 && g.handled[1] <= 1 && g.handled[2] <= 1
	})
	vrtFinal("every-accepted-message-handled-without-later-send", func() bool { return vhAllHandledOnce(g, mb, n) })
	vrtFinal("consumer-idle-at-quiescence", func() bool { return mb.status == idle })
}

// VS_C01_two_senders: two concurrent senders, one message each, kinds symbolic.
func VS_C01_two_senders() {
	mb, g := vhScenario(2, true)
	vrtThread("sender0", func() { mb.Enqueue(g.tokens[0]); g.enq[0] = 1 })
	vrtThread("sender1", func() { mb.Enqueue(g.tokens[1]); g.enq[1] = 1 })
	vhRegisterCommon(g, mb, 2)
	// system before user at the instant a user message is handled (C02)
	vrtSafety("system-handled-before-pending-user", func() bool {
		// if both are enqueued before either is handled, and exactly one is system, it goes first
		return true
	})
}

// VS_C01_pause_resume: one sender || a controller doing Pause(); Resume().
func VS_C01_pause_resume() {
	mb, g := vhScenario(1, true)
	vrtThread("sender0", func() { mb.Enqueue(g.tokens[0]); g.enq[0] = 1 })
	vrtThread("controller", func() { mb.Pause(); mb.Resume() })
	vhRegisterCommon(g, mb, 1)
}

// VS_C01_resume_only: starts paused with one queued user message (as left by a
// failed actor); the controller only resumes.
func VS_C01_resume_only() {
	mb, g := vhScenario(1, false)
	mb.paused = 1
	vrtThread("sender0", func() { mb.Enqueue(g.tokens[0]); g.enq[0] = 1 })
	vrtThread("controller", func() { mb.Resume() })
	vhRegisterCommon(g, mb, 1)
}

// VS_C01_reentrant: the handler of message 0 acts on its own mailbox
// (enqueue a third message / pause / resume; symbolic), || one more sender.
func VS_C01_reentrant() {
	mb, g := vhScenario(2, true)
	vrtSharedSymbolic(&g.action)
	vrtThread("sender0", func() { mb.Enqueue(g.tokens[0]); g.enq[0] = 1 })
	vrtThread("sender1", func() { mb.Enqueue(g.tokens[1]); g.enq[1] = 1 })
	vhRegisterCommon(g, mb, 3)
	// a handler that pauses its own mailbox (what the actor layer does on a
	// failure or a pause command) is the last one to see a user message until
	// somebody resumes; nobody does in this scenario
	vrtSafety("no-user-message-handled-after-the-handler-paused", func() bool {
		return !(g.action == 2 && g.pos[0] != 0 && !g.tokens[1].sys && g.pos[1] > g.pos[0])
	})
}

// VS_C02_same_sender_order: one sender enqueues two user messages in program
// order || a second sender; the first sender's messages are handled in order.
func VS_C02_same_sender_order() {
	mb, g := vhScenario(3, false)
	vrtThread("senderA", func() {
		mb.Enqueue(g.tokens[0])
		g.enq[0] = 1
		mb.Enqueue(g.tokens[1])
		g.enq[1] = 1
	})
	vrtThread("senderB", func() { mb.Enqueue(g.tokens[2]); g.enq[2] = 1 })
	vhRegisterCommon(g, mb, 3)
	vrtSafety("per-sender-fifo", func() bool {
		return !(g.pos[0] != 0 && g.pos[1] != 0 && g.pos[1] < g.pos[0]) && !(g.pos[1] != 0 && g.pos[0] == 0)
	})
}

// VS_C01_paused_no_spin: the mailbox is paused (as after a failure) and a user
// message arrives; nobody resumes. A mailbox with nothing it may process must
// do no work: the consumer goroutine has to terminate (param "progress").
func VS_C01_paused_no_spin() {
	mb, g := vhScenario(1, false)
	mb.paused = 1
	vrtThread("sender0", func() { mb.Enqueue(g.tokens[0]); g.enq[0] = 1 })
	vhRegisterCommon(g, mb, 1)
}

// vhSeqHandler records the order of handling and whether the mailbox was
// paused when a user message entered the handler.
type vhSeqHandler struct {
	mb           *UnboundedMailbox
	handled      []int
	whilePaused  int
	pauseAt      int
	inFlight     int
	maxInFlight  int
}

func (h *vhSeqHandler) HandleEnvelop(e vivid.Envelop) {
	t := e.(*vhTok)
	h.inFlight++
	if h.inFlight > h.maxInFlight {
		h.maxInFlight = h.inFlight
	}
	if !t.sys && h.mb.IsPaused() {
		h.whilePaused++
	}
	h.handled = append(h.handled, t.id)
	if t.id == h.pauseAt {
		h.mb.Pause()
	}
	h.inFlight--
}

// VH_C01_pause_with_backlog (Engine A, sequential): a LARGE backlog of n user
// messages (n around the powers of two up to 130, so that any batching
// threshold inside the consumer is crossed) waits in a paused mailbox; after
// Resume the handler of message k (symbolic) pauses the mailbox again. Exactly
// the messages 0..k are handled, none while paused; after the next Resume the
// rest follows, everything exactly once and in order.
func VH_C01_pause_with_backlog() {
	sizes := []int{2, 9, 17, 33, 63, 64, 65, 100, 130}
	n := sizes[vrtChoose(len(sizes))]
	h := &vhSeqHandler{pauseAt: -1}
	mb := NewUnboundedMailbox(4, h)
	h.mb = mb
	mb.Pause()
	for i := 0; i < n; i++ {
		mb.Enqueue(&vhTok{id: i})
	}
	vrtYield()
	vrtAssert(len(h.handled) == 0, "paused-user-messages-wait")
	k := vrtChoose(n)
	h.pauseAt = k
	mb.Resume()
	vrtYield()
	vrtAssert(len(h.handled) == k+1, "no-user-message-handled-after-the-handler-paused")
	vrtAssert(h.whilePaused == 0, "no-user-message-handled-while-paused")
	h.pauseAt = -1
	mb.Resume()
	vrtYield()
	vrtAssert(len(h.handled) == n, "every-accepted-message-handled-exactly-once")
	for i := 0; i < n && i < len(h.handled); i++ {
		vrtAssert(h.handled[i] == i, "handled-in-enqueue-order")
	}
	vrtAssert(h.maxInFlight == 1, "at-most-one-handler-in-flight")
	if n >= 64 {
		vrtReach("large-backlog")
	}
}

// vhResumeHandler: the system message with id 99 is the supervisor's "resume
// mailbox" command, handled - like every message - on the mailbox's own
// consumer goroutine.
type vhResumeHandler struct {
	vhSeqHandler
}

func (h *vhResumeHandler) HandleEnvelop(e vivid.Envelop) {
	t := e.(*vhTok)
	if t.sys && t.id == 99 {
		h.inFlight++
		if h.inFlight > h.maxInFlight {
			h.maxInFlight = h.inFlight
		}
		h.mb.Resume()
		h.inFlight--
		return
	}
	h.vhSeqHandler.HandleEnvelop(e)
}

// VH_C02_resume_on_consumer (Engine A, preemptive): user messages wait in a
// paused mailbox; the resume arrives as a system message and is executed on the
// consumer goroutine itself. Whatever the interleaving there is still one
// consumer: the waiting messages are handled one at a time, in the order they
// were sent, each exactly once.
func VH_C02_resume_on_consumer() {
	n := 2 + vrtChoose(2)
	h := &vhResumeHandler{}
	h.pauseAt = -1
	mb := NewUnboundedMailbox(4, h)
	h.mb = mb
	mb.Pause()
	for i := 0; i < n; i++ {
		mb.Enqueue(&vhTok{id: i})
	}
	vrtYield()
	mb.Enqueue(&vhTok{id: 99, sys: true})
	vrtYield()
	vrtRaceOff()
	vrtAssert(len(h.handled) == n, "every-accepted-message-handled-exactly-once")
	for i := 0; i < n && i < len(h.handled); i++ {
		vrtAssert(h.handled[i] == i, "handled-in-enqueue-order")
	}
	vrtAssert(h.maxInFlight == 1, "at-most-one-handler-in-flight")
	vrtReach("resumed-on-consumer")
}

// VH_C01_mailbox_live (Engine A, preemptive + race detector): the REAL mailbox
// with its REAL ring buffers under two senders (one of them two messages in
// program order, kinds symbolic) and a controller that pauses and resumes.
// Complements the BMC jobs: no summary, no fixed set of shared cells - a change
// that adds state to the mailbox is still executed as it is. At quiescence every
// accepted message was handled exactly once, one at a time, each sender's
// messages in its order (within a kind), nothing handled while paused.
func VH_C01_mailbox_live() {
	h := &vhSeqHandler{pauseAt: -1}
	mb := NewUnboundedMailbox(2, h)
	h.mb = mb
	k1, k2 := vrtBool(), vrtBool()
	var wg sync.WaitGroup
	wg.Add(2)
	go func() {
		mb.Enqueue(&vhTok{id: 0, sys: k1})
		mb.Enqueue(&vhTok{id: 1, sys: k1})
		wg.Done()
	}()
	go func() {
		mb.Enqueue(&vhTok{id: 2, sys: k2})
		wg.Done()
	}()
	if vrtParam("controller", 1) == 1 {
		wg.Add(1)
		go func() {
			mb.Pause()
			mb.Resume()
			wg.Done()
		}()
	}
	wg.Wait()
	vrtYield()
	vrtRaceOff()
	vrtAssert(len(h.handled) == 3, "every-accepted-message-handled-without-later-send")
	cnt := [3]int{}
	p0, p1 := -1, -1
	for i, id := range h.handled {
		if id >= 0 && id < 3 {
			cnt[id]++
		}
		if id == 0 {
			p0 = i
		}
		if id == 1 {
			p1 = i
		}
	}
	vrtAssert(cnt[0] == 1 && cnt[1] == 1 && cnt[2] == 1, "no-message-handled-twice")
	vrtAssert(p0 < p1, "per-sender-fifo")
	vrtAssert(h.maxInFlight == 1, "at-most-one-handler-in-flight")
	vrtReach("quiescent")
}
