//go:build verif

package messages

// C12 — primitive writer/reader agreement; reflective struct/slice/array path.

// VrtRegisteredNames exposes the wire registry to harnesses in other packages.
func VrtRegisteredNames() []string {
	var out []string
	for name := range internalMessageNameOfDesc {
		out = append(out, name)
	}
	return out
}

type vhInner struct {
	A uint16
	B string
	c int32 // unexported: skipped by both sides
}

type vhOuter struct {
	X  int64
	In vhInner
	L  []vhInner
	Ar [2]uint32
	Bs []byte
	F  bool
	SS []string
}

func vhStr(max int) string { return vrtString(vrtChoose(max + 1)) }

// VH_C12_primitives: every supported primitive written with Write/WriteFrom is
// read back equal with Read/ReadInto, and the reader consumes exactly what the
// writer produced. kind selects the primitive.
func VH_C12_primitives() {
	w := NewWriter()
	kind := vrtParam("kind", 0)
	maxlen := vrtParam("maxlen", 2)
	switch kind {
	case 0: // fixed-width integers and bool, one shot, with pointers and values mixed
		a, b, c, d := vrtUint8(), vrtInt8(), vrtUint16(), vrtInt16()
		e, f, g, h := vrtUint32(), vrtInt32(), vrtUint64(), vrtInt64()
		k := vrtBool()
		vrtAssert(w.WriteFrom(a, &b, c, &d, e, &f, g, &h, k) == nil, "encode-ok")
		r := NewReader(w.Bytes())
		var a2 uint8
		var b2 int8
		var c2 uint16
		var d2 int16
		var e2 uint32
		var f2 int32
		var g2 uint64
		var h2 int64
		var k2 bool
		vrtAssert(r.ReadInto(&a2, &b2, &c2, &d2, &e2, &f2, &g2, &h2, &k2) == nil, "decode-ok")
		vrtAssert(a == a2 && b == b2 && c == c2 && d == d2, "prim-roundtrip")
		vrtAssert(e == e2 && f == f2 && g == g2 && h == h2 && k == k2, "prim-roundtrip")
		vrtAssert(r.RemainingSize() == 0 && r.Pos() == w.Len(), "pos-equals-len")
		vrtAssert(w.Len() == 1+1+2+2+4+4+8+8+1, "fixed-widths")
		vrtReach("ints")
	case 1: // strings and byte slices, every length 0..maxlen
		s := vhStr(maxlen)
		bs := vrtBytes(vrtChoose(maxlen + 1))
		short := vhStr(maxlen)
		w.Write(s).Write(bs).WriteShortString(short).WriteBytesWithLength(bs, LengthSize2)
		vrtAssert(w.Err() == nil, "encode-ok")
		r := NewReader(w.Bytes())
		var s2 string
		var bs2 []byte
		vrtAssert(r.ReadInto(&s2, &bs2) == nil, "decode-ok")
		short2, err := r.ReadShortString()
		vrtAssert(err == nil, "decode-ok")
		bs3, err := r.ReadBytesWithLength(LengthSize2)
		vrtAssert(err == nil, "decode-ok")
		vrtAssert(s == s2 && short == short2, "prim-roundtrip")
		vrtAssert(len(bs2) == len(bs) && len(bs3) == len(bs), "prim-roundtrip")
		for i := range bs {
			vrtAssert(bs2[i] == bs[i] && bs3[i] == bs[i], "prim-roundtrip")
		}
		vrtAssert(r.RemainingSize() == 0, "pos-equals-len")
		vrtReach("strings")
	case 2: // varints, full 64-bit range
		u, v := vrtUint64(), vrtInt64()
		w.WriteUvarint(u).WriteVarint(v)
		vrtAssert(w.Err() == nil, "encode-ok")
		r := NewReader(w.Bytes())
		u2, err := r.ReadUvarint()
		vrtAssert(err == nil, "decode-ok")
		v2, err := r.ReadVarint()
		vrtAssert(err == nil, "decode-ok")
		vrtAssert(u == u2 && v == v2, "prim-roundtrip")
		vrtAssert(r.RemainingSize() == 0, "pos-equals-len")
		vrtReach("varints")
	case 3: // reflective path: nested struct, slice of struct, array, []string
		var o vhOuter
		o.X = vrtInt64()
		o.In = vhInner{A: vrtUint16(), B: vhStr(maxlen), c: 7}
		n := vrtChoose(maxlen + 1)
		for i := 0; i < n; i++ {
			o.L = append(o.L, vhInner{A: vrtUint16(), B: vhStr(1)})
		}
		o.Ar = [2]uint32{vrtUint32(), vrtUint32()}
		o.Bs = vrtBytes(vrtChoose(maxlen + 1))
		o.F = vrtBool()
		ns := vrtChoose(maxlen + 1)
		for i := 0; i < ns; i++ {
			o.SS = append(o.SS, vhStr(1))
		}
		vrtAssert(w.WriteFrom(&o) == nil, "encode-ok")
		r := NewReader(w.Bytes())
		var o2 vhOuter
		vrtAssert(r.ReadInto(&o2) == nil, "decode-ok")
		vrtAssert(o2.X == o.X && o2.In.A == o.In.A && o2.In.B == o.In.B && o2.F == o.F, "reflect-roundtrip")
		vrtAssert(o2.Ar[0] == o.Ar[0] && o2.Ar[1] == o.Ar[1], "reflect-roundtrip")
		vrtAssert(len(o2.L) == len(o.L) && len(o2.Bs) == len(o.Bs) && len(o2.SS) == len(o.SS), "reflect-roundtrip")
		for i := range o.L {
			vrtAssert(o2.L[i].A == o.L[i].A && o2.L[i].B == o.L[i].B, "reflect-roundtrip")
		}
		for i := range o.Bs {
			vrtAssert(o2.Bs[i] == o.Bs[i], "reflect-roundtrip")
		}
		for i := range o.SS {
			vrtAssert(o2.SS[i] == o.SS[i], "reflect-roundtrip")
		}
		vrtAssert(r.RemainingSize() == 0, "pos-equals-len")
		vrtReach("reflect")
	case 4: // length-prefix boundaries with concrete lengths and symbolic content
		n := []int{255, 256, 65535, 65536}[vrtChoose(4)]
		data := make([]byte, n)
		data[0], data[n-1] = vrtUint8(), vrtUint8()
		for _, size := range []int{LengthSize1, LengthSize2, LengthSize4} {
			w.Reset()
			w.WriteBytesWithLength(data, size)
			fits := (size == 1 && n <= 255) || (size == 2 && n <= 65535) || size == 4
			vrtAssert((w.Err() == nil) == fits, "length-prefix-limit-is-error")
			if fits {
				r := NewReader(w.Bytes())
				got, err := r.ReadBytesWithLength(size)
				vrtAssert(err == nil && len(got) == n, "decode-ok")
				vrtAssert(got[0] == data[0] && got[n-1] == data[n-1], "prim-roundtrip")
				vrtAssert(r.RemainingSize() == 0, "pos-equals-len")
			} else {
				vrtAssert(w.Len() == 0, "failed-write-writes-nothing")
			}
		}
		vrtReach("boundaries")
	case 5: // floats travel as their bit patterns (concrete corpus incl. NaN/Inf/-0)
		vals := []float64{0, 1.5, -2.25, 1e308, 5e-324}
		for _, f := range vals {
			w.Reset()
			w.Write(f).Write(float32(f))
			r := NewReader(w.Bytes())
			var f2 float64
			var g2 float32
			vrtAssert(r.ReadInto(&f2, &g2) == nil, "decode-ok")
			vrtAssert(f2 == f && g2 == float32(f), "prim-roundtrip")
		}
		vrtReach("floats")
	}
}
