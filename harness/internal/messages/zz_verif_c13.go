//go:build verif

package messages

// C13 — totality of the primitive reader, incl. the reflective path.

func vhNoPanic(name string, f func()) {
	defer func() {
		if r := recover(); r != nil {
			if _, mine := r.(vrtAssertFailed); mine {
				panic(r)
			}
			if _, mine := r.(vrtAssumeFailed); mine {
				panic(r)
			}
			if _, mine := r.(vrtExhausted); mine {
				panic(r)
			}
			vrtAssert(false, name)
		}
	}()
	f()
}

type vhTiny struct {
	K uint8
	T string
}

type vhC13Target struct {
	A  uint8
	L  []vhTiny
	Ar [1]uint8
	B  []byte
}

// VH_C13_reader_primitives_total: Read/ReadInto into every kind of target on
// every byte string of length n (0..N, fully symbolic): error or value, no
// panic, allocations within budget; on error the caller's previously decoded
// value is untouched.
func VH_C13_reader_primitives_total() {
	n := vrtChoose(vrtParam("N", 10) + 1)
	data := vrtBytes(n)
	vrtAllocBudget(vrtParam("budget", 65536))
	switch vrtParam("target", 0) {
	case 0: // reflective struct with slices, arrays, strings
		t := vhC13Target{A: 7, L: []vhTiny{{K: 1, T: "x"}}, Ar: [1]uint8{3}, B: []byte{5}}
		vhNoPanic("decode-no-panic", func() {
			r := NewReader(data)
			err := r.ReadInto(&t)
			if err != nil {
				vrtReach("decode-error")
				vrtAssert(t.A == 7 && len(t.L) == 1 && t.L[0].K == 1 && t.L[0].T == "x", "caller-untouched-on-error")
				vrtAssert(t.Ar == [1]uint8{3} && len(t.B) == 1 && t.B[0] == 5, "caller-untouched-on-error")
			} else {
				vrtReach("decoded-ok")
			}
		})
	case 1: // slice of strings / slice of slices through reflection
		var ss [][]string
		vhNoPanic("decode-no-panic", func() {
			r := NewReader(data)
			if err := r.ReadInto(&ss); err != nil {
				vrtReach("decode-error")
				vrtAssert(ss == nil, "caller-untouched-on-error")
			} else {
				vrtReach("decoded-ok")
			}
		})
	case 2: // primitives mixed, varints, short strings, every length-prefix size
		vhNoPanic("decode-no-panic", func() {
			r := NewReader(data)
			switch vrtChoose(8) {
			case 0:
				var a uint32
				var s string
				var b []byte
				var f float64
				_ = r.ReadInto(&a, &s, &b, &f)
			case 1:
				_, _ = r.ReadVarint()
				_, _ = r.ReadUvarint()
			case 2:
				_, _ = r.ReadShortString()
				_, _ = r.ReadBytesWithLength(LengthSize2)
			case 3:
				_, _ = r.ReadBytesWithLength(vrtChoose(6))
			case 4:
				_, _ = r.ReadBytes(vrtChoose(n + 2))
				_, _ = r.ReadByte()
			case 5:
				_ = r.Skip(vrtChoose(n + 2))
				_ = r.Remaining()
				_, _ = r.ReadUint16()
			case 6:
				_ = r.Seek(vrtChoose(n+3) - 1)
				_, _ = r.ReadUint64()
			case 7:
				var i16 int16
				var i8 int8
				var bo bool
				var f32 float32
				var bp []byte
				_ = r.ReadInto(&i8, &i16, &bo, &f32, &bp)
			}
			vrtReach("ran")
		})
	case 3: // unsupported targets: error, not panic
		vhNoPanic("decode-no-panic", func() {
			r := NewReader(data)
			var m map[string]int
			var i int
			var p *int
			var x interface{}
			vrtAssert(r.Read(&m) != nil, "unsupported-target-is-error")
			vrtAssert(r.Read(&i) != nil, "unsupported-target-is-error")
			vrtAssert(r.Read(i) != nil, "unsupported-target-is-error")
			vrtAssert(r.Read(p) != nil, "unsupported-target-is-error")
			vrtAssert(r.Read(nil) != nil, "unsupported-target-is-error")
			vrtAssert(r.Read(&x) != nil, "unsupported-target-is-error")
			vrtReach("ran")
		})
	case 5: // zero-size element types: no wire bytes per element, so the length prefix is the only bound
		which := vrtChoose(3)
		vhNoPanic("decode-no-panic", func() {
			r := NewReader(data)
			// a decode of n bytes may not run longer than a generous multiple of n
			vrtStepLimit(20000 + 3000*n)
			switch which {
			case 0:
				var z []struct{}
				_ = r.ReadInto(&z)
			case 1:
				var zz [][]struct{}
				_ = r.ReadInto(&zz)
			case 2:
				var t struct {
					A uint8
					Z []struct{}
				}
				_ = r.ReadInto(&t)
			}
			vrtStepLimit(0)
			vrtReach("ran")
		})
	case 4: // targets that already hold previously decoded values (with spare capacity)
		which := vrtChoose(4)
		vhNoPanic("decode-no-panic", func() {
			r := NewReader(data)
			switch which {
			case 0:
				back := make([]vhTiny, 2, 4)
				back[0], back[1] = vhTiny{K: 1, T: "x"}, vhTiny{K: 2, T: "y"}
				dst := back
				err := r.ReadInto(&dst)
				if err != nil {
					vrtReach("decode-error")
					vrtAssert(len(dst) == 2 && dst[0] == (vhTiny{K: 1, T: "x"}) && dst[1] == (vhTiny{K: 2, T: "y"}), "caller-untouched-on-error")
					vrtAssert(back[0] == (vhTiny{K: 1, T: "x"}) && back[1] == (vhTiny{K: 2, T: "y"}), "caller-untouched-on-error")
				} else {
					vrtReach("decoded-ok")
				}
			case 1:
				back := make([]uint16, 3, 8)
				back[0], back[1], back[2] = 11, 22, 33
				dst := back
				err := r.Read(&dst)
				if err != nil {
					vrtReach("decode-error")
					vrtAssert(len(dst) == 3 && dst[0] == 11 && dst[1] == 22 && dst[2] == 33, "caller-untouched-on-error")
					vrtAssert(back[0] == 11 && back[1] == 22 && back[2] == 33, "caller-untouched-on-error")
				}
			case 2:
				dst := [2]vhTiny{{K: 1, T: "x"}, {K: 2, T: "y"}}
				err := r.ReadInto(&dst)
				if err != nil {
					vrtAssert(dst == [2]vhTiny{{K: 1, T: "x"}, {K: 2, T: "y"}}, "caller-untouched-on-error")
				}
			case 3:
				// two targets in one call: the first decodes, the second fails;
				// the second keeps its previous value
				var a uint8 = 9
				back := make([]string, 1, 4)
				back[0] = "keep"
				dst := back
				err := r.ReadInto(&a, &dst)
				if err != nil {
					vrtAssert(len(dst) == 1 && dst[0] == "keep" && back[0] == "keep", "caller-untouched-on-error")
				}
			}
			vrtReach("ran")
		})
	}
}

// VH_C13_pool_reuse: a decode that failed must not poison a later decode of a
// valid buffer through the reader/writer pools (sync.Pool modelled as LIFO).
func VH_C13_pool_reuse() {
	bad := vrtBytes(vrtChoose(4))
	r := NewReaderFromPool(bad)
	var s string
	err := r.ReadInto(&s)
	ReleaseReaderToPool(r)
	if err != nil {
		vrtReach("first-decode-failed")
	}
	w := NewWriterFromPool()
	w.WriteBytesWithLength(make([]byte, 300), LengthSize1) // sets the sticky error
	vrtAssert(w.Err() != nil, "oversize-short-write-is-error")
	ReleaseWriterToPool(w)

	w2 := NewWriterFromPool()
	x := vrtUint32()
	vrtAssert(w2.WriteFrom(x, "ok") == nil, "pooled-writer-is-clean")
	good := append([]byte{}, w2.Bytes()...)
	ReleaseWriterToPool(w2)
	r2 := NewReaderFromPool(good)
	var y uint32
	var t string
	vrtAssert(r2.ReadInto(&y, &t) == nil, "pooled-reader-is-clean")
	vrtAssert(y == x && t == "ok", "pooled-roundtrip")
	ReleaseReaderToPool(r2)
	vrtReach("reused")
}
