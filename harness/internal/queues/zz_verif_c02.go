//go:build verif

package queues

// C02 — ring buffer against a reference FIFO.

// VH_C02_ring_from_init: a symbolic sequence of L operations from New(size)
// on the real RingQueue and on a Go slice; results and Length() must agree.
func VH_C02_ring_from_init() {
	size := vrtParam("size", 1)
	L := vrtParam("L", 6)
	q := New(int64(size))
	var ref []uint8
	for i := 0; i < L; i++ {
		op := vrtChoose(3)
		switch op {
		case 0:
			x := vrtUint8()
			if q.content.tail+1 == q.content.head || (q.content.tail+1)%q.content.mod == q.content.head {
				vrtReach("growth")
			}
			q.Push(x)
			ref = append(ref, x)
			if q.content.tail < q.content.head {
				vrtReach("wrapped")
			}
		case 1:
			got, ok := q.Pop()
			if len(ref) == 0 {
				vrtAssert(!ok, "pop-matches-ref")
				vrtReach("pop-empty")
			} else {
				vrtAssert(ok, "pop-matches-ref")
				g, isU8 := got.(uint8)
				vrtAssert(isU8, "pop-matches-ref")
				vrtAssert(g == ref[0], "pop-matches-ref")
				ref = ref[1:]
			}
		case 2:
			n := vrtChoose(4)
			got, ok := q.PopMany(int64(n))
			if len(ref) == 0 {
				vrtAssert(!ok, "popmany-matches-ref")
			} else {
				vrtAssert(ok, "popmany-matches-ref")
				k := n
				if k > len(ref) {
					k = len(ref)
				}
				vrtAssert(len(got) == k, "popmany-matches-ref")
				for j := 0; j < k && j < len(got); j++ {
					g, isU8 := got[j].(uint8)
					vrtAssert(isU8, "popmany-matches-ref")
					vrtAssert(g == ref[j], "popmany-matches-ref")
				}
				ref = ref[k:]
				vrtReach("popmany")
			}
		}
		vrtAssert(q.Length() == int64(len(ref)), "len-matches-ref")
	}
	// drain: everything left comes out in order
	for len(ref) > 0 {
		got, ok := q.Pop()
		vrtAssert(ok, "drain-matches-ref")
		g, isU8 := got.(uint8)
		vrtAssert(isU8 && g == ref[0], "drain-matches-ref")
		ref = ref[1:]
	}
	_, ok := q.Pop()
	vrtAssert(!ok, "drain-matches-ref")
}
