//go:build verif

package queues

import "sync"

// C02 — ring buffer against a reference FIFO.

// VH_C02_ring_from_init: a symbolic sequence of L operations from New(size)
// on the real RingQueue and on a Go slice; results and Length() must agree.
func VH_C02_ring_from_init() {
	size := vrtParam("size", 1)
	L := vrtParam("L", 6)
	q := New(int64(size))
	var ref []uint8
	for i := 0; i < L; i++ {
		op := vrtChoose(3)
		switch op {
		case 0:
			x := vrtUint8()
			if q.content.tail+1 == q.content.head || (q.content.tail+1)%q.content.mod == q.content.head {
				vrtReach("growth")
			}
			q.Push(x)
			ref = append(ref, x)
			if q.content.tail < q.content.head {
				vrtReach("wrapped")
			}
		case 1:
			got, ok := q.Pop()
			if len(ref) == 0 {
				vrtAssert(!ok, "pop-matches-ref")
				vrtReach("pop-empty")
			} else {
				vrtAssert(ok, "pop-matches-ref")
				g, isU8 := got.(uint8)
				vrtAssert(isU8, "pop-matches-ref")
				vrtAssert(g == ref[0], "pop-matches-ref")
				ref = ref[1:]
			}
		case 2:
			n := vrtChoose(4)
			got, ok := q.PopMany(int64(n))
			if len(ref) == 0 {
				vrtAssert(!ok, "popmany-matches-ref")
			} else {
				vrtAssert(ok, "popmany-matches-ref")
				k := n
				if k > len(ref) {
					k = len(ref)
				}
				vrtAssert(len(got) == k, "popmany-matches-ref")
				for j := 0; j < k && j < len(got); j++ {
					g, isU8 := got[j].(uint8)
					vrtAssert(isU8, "popmany-matches-ref")
					vrtAssert(g == ref[j], "popmany-matches-ref")
				}
				ref = ref[k:]
				vrtReach("popmany")
			}
		}
		vrtAssert(q.Length() == int64(len(ref)), "len-matches-ref")
	}
	// drain: everything left comes out in order
	for len(ref) > 0 {
		got, ok := q.Pop()
		vrtAssert(ok, "drain-matches-ref")
		g, isU8 := got.(uint8)
		vrtAssert(isU8 && g == ref[0], "drain-matches-ref")
		ref = ref[1:]
	}
	_, ok := q.Pop()
	vrtAssert(!ok, "drain-matches-ref")
}

// vhRingState builds an arbitrary valid ring state for capacity mod: head and
// tail anywhere in [0,mod), the live window filled with fresh symbolic items,
// every other slot nil. Representation invariant (derived from New/Push/Pop):
// len == (tail-head) mod mod, len <= mod-1, len(buffer) == mod.
func vhRingState(mod int) (*RingQueue, []uint8) {
	head := vrtChoose(mod)
	tail := vrtChoose(mod)
	n := (tail - head + mod) % mod
	buf := make([]interface{}, mod)
	var abs []uint8
	for i := 0; i < n; i++ {
		x := vrtUint8()
		buf[(head+1+i)%mod] = x
		abs = append(abs, x)
	}
	q := &RingQueue{len: int64(n), content: &ringBuffer{buffer: buf, head: int64(head), tail: int64(tail), mod: int64(mod)}}
	return q, abs
}

// vhRingAbs reads the abstraction (the FIFO content) back out of a ring and
// checks the representation invariant.
func vhRingAbs(q *RingQueue, name string) []interface{} {
	c := q.content
	vrtAssert(int64(len(c.buffer)) == c.mod, name)
	vrtAssert(c.head >= 0 && c.head < c.mod && c.tail >= 0 && c.tail < c.mod, name)
	n := (c.tail - c.head + c.mod) % c.mod
	vrtAssert(q.len == n, name)
	out := make([]interface{}, 0, n)
	for i := int64(0); i < n; i++ {
		out = append(out, c.buffer[(c.head+1+i)%c.mod])
	}
	return out
}

func vhSameSeq(got []interface{}, want []uint8, name string) {
	vrtAssert(len(got) == len(want), name)
	for i := range want {
		if i < len(got) {
			g, ok := got[i].(uint8)
			vrtAssert(ok, name)
			vrtAssert(g == want[i], name)
		}
	}
}

// VH_C02_ring_step: one Push / Pop / PopMany from an arbitrary valid state of
// capacity mod (1..maxmod): invariant preserved and the abstraction commutes.
// Covers every queue length and wrap position independent of history length,
// including tail+1 == head (the growth branch).
func VH_C02_ring_step() {
	mod := vrtChoose(vrtParam("maxmod", 6)) + 1
	q, abs := vhRingState(mod)
	switch vrtChoose(3) {
	case 0:
		x := vrtUint8()
		if int64(len(abs)) == q.content.mod-1 {
			vrtReach("growth")
		}
		q.Push(x)
		after := vhRingAbs(q, "inv-preserved")
		vhSameSeq(after, append(append([]uint8{}, abs...), x), "push-appends")
		if q.content.tail < q.content.head {
			vrtReach("wrapped")
		}
	case 1:
		got, ok := q.Pop()
		after := vhRingAbs(q, "inv-preserved")
		if len(abs) == 0 {
			vrtReach("pop-empty")
			vrtAssert(!ok && got == nil, "pop-empty-is-false")
			vhSameSeq(after, abs, "pop-empty-unchanged")
		} else {
			g, isU8 := got.(uint8)
			vrtAssert(ok && isU8 && g == abs[0], "pop-returns-oldest")
			vhSameSeq(after, abs[1:], "pop-removes-oldest")
		}
	case 2:
		n := vrtChoose(vrtParam("maxmany", 4))
		got, ok := q.PopMany(int64(n))
		after := vhRingAbs(q, "inv-preserved")
		if len(abs) == 0 {
			vrtAssert(!ok, "popmany-empty-is-false")
		} else {
			k := n
			if k > len(abs) {
				k = len(abs)
			}
			vrtAssert(ok, "popmany-ok")
			vhSameSeq(got, abs[:k], "popmany-returns-oldest-in-order")
			vhSameSeq(after, abs[k:], "popmany-removes-them")
			vrtReach("popmany")
		}
	}
}

// VH_C02_ring_concurrent: the REAL ring under concurrent use, explored by
// Engine A in preemptive mode (every schedule with at most `preempt`
// preemptions at sync / atomic operations; at blocking points every runnable
// goroutine is tried). Two producers push (one of them two items in program
// order) into a ring of initial size `size` that holds a symbolic number of
// earlier items at a symbolic wrap position, optionally while a consumer pops.
// Every accepted item comes out exactly once, never an empty slot, earlier
// items first, each producer's items in its program order.
func VH_C02_ring_concurrent() {
	size := int64(vrtParam("size", 2))
	q := New(size)
	pre := vrtChoose(int(size) + 1)
	for i := 0; i < pre; i++ {
		q.Push(100 + i)
	}
	pops := vrtChoose(pre + 1)
	for i := 0; i < pops; i++ {
		v, ok := q.Pop()
		vrtAssert(ok && v == any(100+i), "sequential-prefix-fifo")
	}
	// the pushed values are symbolic (pairwise distinct, distinct from the
	// earlier items): which value comes out where is decided by the solver
	a1, a2, b1 := vrtInt(), vrtInt(), vrtInt()
	vrtAssume(a1 != a2)
	vrtAssume(a1 != b1)
	vrtAssume(a2 != b1)
	vrtAssume(a1 > 110)
	vrtAssume(a2 > 110)
	vrtAssume(b1 > 110)
	var wg sync.WaitGroup
	var popped []any
	wg.Add(2)
	go func() {
		q.Push(a1)
		q.Push(a2)
		wg.Done()
	}()
	go func() {
		q.Push(b1)
		wg.Done()
	}()
	if vrtParam("popper", 0) == 1 {
		wg.Add(1)
		go func() {
			for i := 0; i < 2; i++ {
				if v, ok := q.Pop(); ok {
					popped = append(popped, v)
				}
			}
			wg.Done()
		}()
	}
	wg.Wait()
	for {
		v, ok := q.Pop()
		if !ok {
			break
		}
		popped = append(popped, v)
		vrtAssert(len(popped) <= pre-pops+3, "no-extra-item")
	}
	vrtAssert(q.Length() == 0, "length-zero-after-drain")
	vrtAssert(len(popped) == pre-pops+3, "every-accepted-item-comes-out-exactly-once")
	n1, n2, n3, p1, p2 := 0, 0, 0, -1, -1
	for i, v := range popped {
		x, isInt := v.(int)
		vrtAssert(isInt, "no-empty-slot-handed-out")
		if i < pre-pops {
			vrtAssert(x == 100+pops+i, "earlier-items-first-in-order")
		}
		// branch-free so that the engine builds one term per run instead of
		// forking on every comparison
		e1, e2, e3 := vhB2I(x == a1), vhB2I(x == a2), vhB2I(x == b1)
		n1, n2, n3 = n1+e1, n2+e2, n3+e3
		p1, p2 = p1+e1*(i+1), p2+e2*(i+1)
	}
	vrtAssert(n1 == 1 && n2 == 1 && n3 == 1, "every-accepted-item-comes-out-exactly-once")
	vrtAssert(p1 < p2, "per-producer-order")
	vrtReach("drained")
}

func vhB2I(b bool) int {
	if b {
		return 1
	}
	return 0
}

// VH_C02_ring_large: the ring at the sizes the mailbox really uses (initial
// capacity 16 / 64 / 256): a wrapped starting phase, then enough pushes to
// cross one or two growth boundaries with pops interleaved at a symbolic
// stride, compared item by item with a reference FIFO. Payloads of the first
// items are symbolic, the rest concrete (distinct).
func VH_C02_ring_large() {
	sizes := []int64{16, 64, 256}
	size := sizes[vrtChoose(len(sizes))]
	q := New(size)
	var ref []any
	next := 0
	push := func() {
		var v any = 1000 + next
		if next < 3 {
			v = vrtInt()
		}
		next++
		q.Push(v)
		ref = append(ref, v)
	}
	pop := func() {
		v, ok := q.Pop()
		if len(ref) == 0 {
			vrtAssert(!ok, "pop-matches-ref")
			return
		}
		vrtAssert(ok && v == ref[0], "pop-matches-ref")
		ref = ref[1:]
	}
	// wrap: advance head and tail by a symbolic phase
	phase := []int{0, 1, int(size) / 2, int(size) - 1}[vrtChoose(4)]
	for i := 0; i < phase; i++ {
		push()
		pop()
	}
	stride := 2 + vrtChoose(3) // one pop every `stride` pushes
	total := int(size)*2 + 5
	if size == 256 {
		total = int(size) + 40
	}
	for i := 0; i < total; i++ {
		push()
		if i%stride == stride-1 {
			pop()
		}
		vrtAssert(q.Length() == int64(len(ref)), "len-matches-ref")
	}
	if vrtChoose(2) == 1 {
		n := int64(len(ref) / 2)
		got, ok := q.PopMany(n)
		vrtAssert(ok && int64(len(got)) == n, "popmany-matches-ref")
		for i := range got {
			vrtAssert(got[i] == ref[i], "popmany-matches-ref")
		}
		ref = ref[n:]
	}
	for len(ref) > 0 {
		pop()
	}
	_, ok := q.Pop()
	vrtAssert(!ok && q.Length() == 0, "drain-matches-ref")
	vrtReach("large-ring")
}
