//go:build verif

package queues

// C02 — ring buffer against a reference FIFO.

// VH_C02_ring_from_init: a symbolic sequence of L operations from New(size)
// on the real RingQueue and on a Go slice; results and Length() must agree.
func VH_C02_ring_from_init() {
	size := vrtParam("size", 1)
	L := vrtParam("L", 6)
	q := New(int64(size))
	var ref []uint8
	for i := 0; i < L; i++ {
		op := vrtChoose(3)
		switch op {
		case 0:
			x := vrtUint8()
			if q.content.tail+1 == q.content.head || (q.content.tail+1)%q.content.mod == q.content.head {
				vrtReach("growth")
			}
			q.Push(x)
			ref = append(ref, x)
			if q.content.tail < q.content.head {
				vrtReach("wrapped")
			}
		case 1:
			got, ok := q.Pop()
			if len(ref) == 0 {
				vrtAssert(!ok, "pop-matches-ref")
				vrtReach("pop-empty")
			} else {
				vrtAssert(ok, "pop-matches-ref")
				g, isU8 := got.(uint8)
				vrtAssert(isU8, "pop-matches-ref")
				vrtAssert(g == ref[0], "pop-matches-ref")
				ref = ref[1:]
			}
		case 2:
			n := vrtChoose(4)
			got, ok := q.PopMany(int64(n))
			if len(ref) == 0 {
				vrtAssert(!ok, "popmany-matches-ref")
			} else {
				vrtAssert(ok, "popmany-matches-ref")
				k := n
				if k > len(ref) {
					k = len(ref)
				}
				vrtAssert(len(got) == k, "popmany-matches-ref")
				for j := 0; j < k && j < len(got); j++ {
					g, isU8 := got[j].(uint8)
					vrtAssert(isU8, "popmany-matches-ref")
					vrtAssert(g == ref[j], "popmany-matches-ref")
				}
				ref = ref[k:]
				vrtReach("popmany")
			}
		}
		vrtAssert(q.Length() == int64(len(ref)), "len-matches-ref")
	}
	// drain: everything left comes out in order
	for len(ref) > 0 {
		got, ok := q.Pop()
		vrtAssert(ok, "drain-matches-ref")
		g, isU8 := got.(uint8)
		vrtAssert(isU8 && g == ref[0], "drain-matches-ref")
		ref = ref[1:]
	}
	_, ok := q.Pop()
	vrtAssert(!ok, "drain-matches-ref")
}

// vhRingState builds an arbitrary valid ring state for capacity mod: head and
// tail anywhere in [0,mod), the live window filled with fresh symbolic items,
// every other slot nil. Representation invariant (derived from New/Push/Pop):
// len == (tail-head) mod mod, len <= mod-1, len(buffer) == mod.
func vhRingState(mod int) (*RingQueue, []uint8) {
	head := vrtChoose(mod)
	tail := vrtChoose(mod)
	n := (tail - head + mod) % mod
	buf := make([]interface{}, mod)
	var abs []uint8
	for i := 0; i < n; i++ {
		x := vrtUint8()
		buf[(head+1+i)%mod] = x
		abs = append(abs, x)
	}
	q := &RingQueue{len: int64(n), content: &ringBuffer{buffer: buf, head: int64(head), tail: int64(tail), mod: int64(mod)}}
	return q, abs
}

// vhRingAbs reads the abstraction (the FIFO content) back out of a ring and
// checks the representation invariant.
func vhRingAbs(q *RingQueue, name string) []interface{} {
	c := q.content
	vrtAssert(int64(len(c.buffer)) == c.mod, name)
	vrtAssert(c.head >= 0 && c.head < c.mod && c.tail >= 0 && c.tail < c.mod, name)
	n := (c.tail - c.head + c.mod) % c.mod
	vrtAssert(q.len == n, name)
	out := make([]interface{}, 0, n)
	for i := int64(0); i < n; i++ {
		out = append(out, c.buffer[(c.head+1+i)%c.mod])
	}
	return out
}

func vhSameSeq(got []interface{}, want []uint8, name string) {
	vrtAssert(len(got) == len(want), name)
	for i := range want {
		if i < len(got) {
			g, ok := got[i].(uint8)
			vrtAssert(ok, name)
			vrtAssert(g == want[i], name)
		}
	}
}

// VH_C02_ring_step: one Push / Pop / PopMany from an arbitrary valid state of
// capacity mod (1..maxmod): invariant preserved and the abstraction commutes.
// Covers every queue length and wrap position independent of history length,
// including tail+1 == head (the growth branch).
func VH_C02_ring_step() {
	mod := vrtChoose(vrtParam("maxmod", 6)) + 1
	q, abs := vhRingState(mod)
	switch vrtChoose(3) {
	case 0:
		x := vrtUint8()
		if int64(len(abs)) == q.content.mod-1 {
			vrtReach("growth")
		}
		q.Push(x)
		after := vhRingAbs(q, "inv-preserved")
		vhSameSeq(after, append(append([]uint8{}, abs...), x), "push-appends")
		if q.content.tail < q.content.head {
			vrtReach("wrapped")
		}
	case 1:
		got, ok := q.Pop()
		after := vhRingAbs(q, "inv-preserved")
		if len(abs) == 0 {
			vrtReach("pop-empty")
			vrtAssert(!ok && got == nil, "pop-empty-is-false")
			vhSameSeq(after, abs, "pop-empty-unchanged")
		} else {
			g, isU8 := got.(uint8)
			vrtAssert(ok && isU8 && g == abs[0], "pop-returns-oldest")
			vhSameSeq(after, abs[1:], "pop-removes-oldest")
		}
	case 2:
		n := vrtChoose(vrtParam("maxmany", 4))
		got, ok := q.PopMany(int64(n))
		after := vhRingAbs(q, "inv-preserved")
		if len(abs) == 0 {
			vrtAssert(!ok, "popmany-empty-is-false")
		} else {
			k := n
			if k > len(abs) {
				k = len(abs)
			}
			vrtAssert(ok, "popmany-ok")
			vhSameSeq(got, abs[:k], "popmany-returns-oldest-in-order")
			vhSameSeq(after, abs[k:], "popmany-removes-them")
			vrtReach("popmany")
		}
	}
}
