//go:build verif

package queues

// VrtShareCells hands every mutable cell of the ring to a registrar (used by
// Engine B scenarios in other packages).
func (q *RingQueue) VrtShareCells(scalar func(ptrs ...any), slice func(s any)) {
	scalar(&q.len, &q.lock, &q.content.head, &q.content.tail)
	slice(q.content.buffer)
}
