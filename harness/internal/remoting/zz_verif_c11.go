//go:build verif

package remoting

import (
	"context"
	"encoding/binary"
	"errors"
	"io"
	"net"
	"time"

	"github.com/kercylan98/vivid"
	"github.com/kercylan98/vivid/pkg/log"
)

// C11 / C14 — the framing layer of the TCP connection actor, driven by a fake
// connection whose reads are segmented nondeterministically.

type vhAddr struct{}

func (vhAddr) Network() string { return "tcp" }
func (vhAddr) String() string  { return "fake:1" }

// vhConn is a net.Conn over a fixed byte stream. Every Read returns either all
// bytes currently available (bounded by len(p)) or — at most `partials` times —
// a nondeterministic non-empty prefix: TCP may coalesce or split arbitrarily.
// After `cut` bytes (cut >= 0) the connection fails with cutErr.
type vhConn struct {
	net.Conn
	stream   []byte
	pos      int
	partials int
	cut      int
	cutErr   error
	reads    int
	written  [][]byte
	closed   bool
	eofReads int
	raddr    string // "" = fake:1
	laddr    string
}

type vhNamedAddr string

func (a vhNamedAddr) Network() string { return "tcp" }
func (a vhNamedAddr) String() string  { return string(a) }

func (c *vhConn) Read(p []byte) (int, error) {
	c.reads++
	limit := len(c.stream)
	if c.cut >= 0 && c.cut < limit {
		limit = c.cut
	}
	avail := limit - c.pos
	if avail <= 0 {
		c.eofReads++
		if c.cut >= 0 && c.cutErr != nil {
			return 0, c.cutErr
		}
		return 0, io.EOF
	}
	if len(p) == 0 {
		return 0, nil
	}
	n := avail
	if n > len(p) {
		n = len(p)
	}
	if c.partials > 0 && n > 1 && vrtChoose(2) == 1 {
		c.partials--
		n = 1 + vrtChoose(n-1)
		vrtReach("partial-read")
	}
	copy(p, c.stream[c.pos:c.pos+n])
	c.pos += n
	return n, nil
}

func (c *vhConn) Write(p []byte) (int, error) {
	c.written = append(c.written, append([]byte{}, p...))
	return len(p), nil
}
func (c *vhConn) Close() error                       { c.closed = true; return nil }
func (c *vhConn) RemoteAddr() net.Addr {
	if c.raddr != "" {
		return vhNamedAddr(c.raddr)
	}
	return vhAddr{}
}
func (c *vhConn) LocalAddr() net.Addr {
	if c.laddr != "" {
		return vhNamedAddr(c.laddr)
	}
	return vhAddr{}
}
func (c *vhConn) SetDeadline(t time.Time) error      { return nil }
func (c *vhConn) SetReadDeadline(t time.Time) error  { return nil }
func (c *vhConn) SetWriteDeadline(t time.Time) error { return nil }

type vhRef struct{ addr, path string }

func (r *vhRef) GetAddress() string           { return r.addr }
func (r *vhRef) GetPath() string              { return r.path }
func (r *vhRef) Equals(o vivid.ActorRef) bool { return o != nil && o.GetAddress() == r.addr && o.GetPath() == r.path }
func (r *vhRef) Clone() vivid.ActorRef        { c := *r; return &c }
func (r *vhRef) ToActorRefs() vivid.ActorRefs { return vivid.ActorRefs{r} }
func (r *vhRef) String() string               { return r.addr + r.path }

type vhStream struct{ events []vivid.Message }

func (s *vhStream) Subscribe(ctx vivid.EventStreamContext, event vivid.Message)   {}
func (s *vhStream) Unsubscribe(ctx vivid.EventStreamContext, event vivid.Message) {}
func (s *vhStream) UnsubscribeAll(ctx vivid.EventStreamContext)                   {}
func (s *vhStream) Publish(ctx vivid.EventStreamContext, event vivid.Message) {
	s.events = append(s.events, event)
}

// vhCtx implements the part of vivid.ActorContext that the connection actor uses.
type vhCtx struct {
	vivid.ActorContext
	ref     *vhRef
	stream  *vhStream
	rearms  int
	kills   int
	pending int // TellSelf(conn) messages not yet consumed
}

func (c *vhCtx) Ref() vivid.ActorRef             { return c.ref }
func (c *vhCtx) EventStream() vivid.EventStream  { return c.stream }
func (c *vhCtx) Logger() log.Logger              { return log.GetDefault() }
func (c *vhCtx) TellSelf(message vivid.Message)  { c.rearms++; c.pending++ }
func (c *vhCtx) Kill(ref vivid.ActorRef, poison bool, reason ...string) {
	c.kills++
}

type vhDelivered struct {
	system                                           bool
	senderAddr, senderPath, receiverAddr, receiverPath string
	msg                                              any
}

type vhHandler struct {
	got      []vhDelivered
	failed   []vivid.Envelop
	reject   bool // the rejectAt-th envelope handed over is refused (as System.HandleRemotingEnvelop refuses an unroutable address)
	rejectAt int
}

func (h *vhHandler) HandleRemotingEnvelop(system bool, senderAddr, senderPath, receiverAddr, receiverPath string, messageInstance any) error {
	h.got = append(h.got, vhDelivered{system, senderAddr, senderPath, receiverAddr, receiverPath, messageInstance})
	if h.reject && len(h.got)-1 == h.rejectAt {
		return errors.New("unroutable envelope")
	}
	return nil
}
func (h *vhHandler) HandleFailedRemotingEnvelop(envelop vivid.Envelop) {
	h.failed = append(h.failed, envelop)
}

// vhBody is the payload of a test message that travels through the user codec.
type vhBody struct{ B []byte }

// vhFrameCodec makes undecodable payloads possible: a payload whose first byte
// is 0xEE fails to decode.
type vhFrameCodec struct{}

func (vhFrameCodec) Encode(message any) ([]byte, error) {
	b, ok := message.(*vhBody)
	if !ok {
		return nil, errors.New("unsupported")
	}
	return append([]byte{}, b.B...), nil
}
// vhKeepInput: the codec keeps the slice it is handed instead of copying it (a
// zero-copy codec, or a message type with a []byte field): what it returned for
// one frame must not change when later frames are read.
var vhKeepInput bool

func (vhFrameCodec) Decode(data []byte) (any, error) {
	if len(data) > 0 && data[0] == 0xEE {
		return nil, errors.New("undecodable payload")
	}
	if vhKeepInput {
		return &vhBody{B: data}, nil
	}
	return &vhBody{B: append([]byte{}, data...)}, nil
}

type vhEnv struct {
	system           bool
	sender, receiver vivid.ActorRef
	msg              vivid.Message
}

func (e *vhEnv) System() bool             { return e.system }
func (e *vhEnv) Sender() vivid.ActorRef   { return e.sender }
func (e *vhEnv) Receiver() vivid.ActorRef { return e.receiver }
func (e *vhEnv) Message() vivid.Message   { return e.msg }

// vhFrame encodes one envelope with the real sender-side framing code.
func vhFrame(body []byte, system bool) []byte {
	m := &Mailbox{codec: vhFrameCodec{}}
	data, err := m.encodeEnvelopWithLength(&vhEnv{system: system, sender: &vhRef{"s:1", "/s"}, receiver: &vhRef{"r:1", "/r"}, msg: &vhBody{B: body}})
	vrtAssert(err == nil, "frame-encodes")
	return data
}

// vhDrive runs the real connection actor until it stops re-arming itself.
func vhDrive(c *tcpConnectionActor, ctx *vhCtx, maxRounds int) {
	ctx.pending = 1 // onLaunch: TellSelf(conn)
	for round := 0; ctx.pending > 0 && ctx.kills == 0; round++ {
		vrtAssert(round < maxRounds, "receiver-does-not-spin")
		ctx.pending--
		_, _ = c.onReadConn(ctx)
	}
}

// VH_C11_frames: F frames (bodies with symbolic bytes, lengths 0..maxbody) sent
// back to back over a healthy link; every segmentation of the byte stream into
// reads (at most `partials` short reads, the rest coalesced) must deliver every
// body exactly once, intact, in order, with the original sender reference.
func VH_C11_frames() {
	vhKeepInput = vrtBool()
	F := vrtParam("frames", 2)
	maxbody := vrtParam("maxbody", 2)
	var stream []byte
	var bodies [][]byte
	var systems []bool
	for i := 0; i < F; i++ {
		b := vrtBytes(1 + vrtChoose(maxbody))
		vrtAssume(b[0] != 0xEE)
		sys := vrtBool()
		bodies = append(bodies, b)
		systems = append(systems, sys)
		stream = append(stream, vhFrame(b, sys)...)
	}
	conn := &vhConn{stream: stream, partials: vrtParam("partials", 2), cut: -1}
	h := &vhHandler{}
	c := &tcpConnectionActor{conn: conn, codec: vhFrameCodec{}, envelopHandler: h, advertiseAddr: "peer:1"}
	ctx := &vhCtx{ref: &vhRef{"l:1", "/conn"}, stream: &vhStream{}}
	vhDrive(c, ctx, 4*F+8)

	vrtAssert(len(h.got) <= F, "no-extra-body")
	for i := range h.got {
		if i < F {
			g, ok := h.got[i].msg.(*vhBody)
			vrtAssert(ok, "bodies-equal-sent-in-order")
			vrtAssert(len(g.B) == len(bodies[i]), "bodies-equal-sent-in-order")
			for j := range bodies[i] {
				if j < len(g.B) {
					vrtAssert(g.B[j] == bodies[i][j], "bodies-equal-sent-in-order")
				}
			}
			vrtAssert(h.got[i].system == systems[i], "flag-intact")
			vrtAssert(h.got[i].senderAddr == "s:1" && h.got[i].senderPath == "/s", "sender-designates-original")
			vrtAssert(h.got[i].receiverAddr == "r:1" && h.got[i].receiverPath == "/r", "receiver-intact")
		}
	}
	vrtAssert(len(h.got) == F, "every-frame-delivered")
	if conn.reads > F {
		vrtReach("split")
	}
	vrtReach("delivered-all")
}

// VH_C14_recv_cut: the same stream, but the connection breaks after `cut`
// bytes (every offset; EOF or a read error): what is delivered is a prefix of
// what was sent, each intact, nothing twice; the actor stops (no spin). An
// undecodable frame in the middle must not stop later frames.
func VH_C14_recv_cut() {
	F := vrtParam("frames", 2)
	maxbody := vrtParam("maxbody", 1)
	var stream []byte
	var bodies [][]byte
	bad := -1
	rejectMode := vrtParam("reject", 0) == 1 // separate job: unroutable envelope instead of cut / undecodable frame
	if !rejectMode && vrtParam("badhdr", 0) == 0 && vrtChoose(2) == 1 {
		bad = vrtChoose(F)
	}
	// badhdr job: a header whose length field is invalid (> 4 MiB, value symbolic)
	// sits in the stream before frame `hdrAt` (or after the last one); it carries
	// no body, the frames around it are valid and may arrive in the same read
	hdrMode := vrtParam("badhdr", 0) == 1
	hdrAt := -1
	hdrLen := 0
	if hdrMode {
		hdrAt = vrtChoose(F + 1)
	}
	putBadHeader := func() {
		l := vrtUint32()
		vrtAssume(l > 4*1024*1024)
		var hb [4]byte
		binary.BigEndian.PutUint32(hb[:], l)
		stream = append(stream, hb[:]...)
		hdrLen = 4
		vrtReach("invalid-length-header")
	}
	for i := 0; i < F; i++ {
		if i == hdrAt {
			putBadHeader()
		}
		b := vrtBytes(1 + vrtChoose(maxbody))
		if i == bad {
			b[0] = 0xEE
		} else {
			vrtAssume(b[0] != 0xEE)
		}
		bodies = append(bodies, b)
		stream = append(stream, vhFrame(b, false)...)
	}
	if hdrAt == F {
		putBadHeader()
	}
	_ = hdrLen
	conn := &vhConn{stream: stream, partials: vrtParam("partials", 1), cut: -1}
	if !rejectMode && !hdrMode && vrtChoose(2) == 1 {
		conn.cut = vrtChoose(len(stream) + 1)
		if vrtChoose(2) == 1 {
			conn.cutErr = errors.New("connection reset by peer")
		}
		vrtReach("cut")
	}
	h := &vhHandler{}
	if rejectMode {
		// a well-framed, decodable envelope that the system refuses (bad address): it
		// must not stop later frames either
		h.reject, h.rejectAt = true, vrtChoose(F)
	}
	c := &tcpConnectionActor{conn: conn, codec: vhFrameCodec{}, envelopHandler: h, advertiseAddr: "peer:1"}
	ctx := &vhCtx{ref: &vhRef{"l:1", "/conn"}, stream: &vhStream{}}
	vhDrive(c, ctx, 4*F+8)

	// expected: the decodable frames that lie completely before the cut
	var want [][]byte
	off := 0
	for i := 0; i < F; i++ {
		end := off + 4 + (len(vhFrame(bodies[i], false)) - 4)
		if conn.cut >= 0 && end > conn.cut {
			break
		}
		if i != bad {
			want = append(want, bodies[i])
		}
		off = end
	}
	vrtAssert(len(h.got) <= len(want), "delivered-is-subsequence-no-dup")
	for i := range h.got {
		if i < len(want) {
			g, ok := h.got[i].msg.(*vhBody)
			vrtAssert(ok && len(g.B) == len(want[i]), "delivered-intact-in-order")
			for j := range want[i] {
				if j < len(g.B) {
					vrtAssert(g.B[j] == want[i][j], "delivered-intact-in-order")
				}
			}
		}
	}
	vrtAssert(len(h.got) == len(want), "complete-frames-before-cut-delivered")
	if bad >= 0 && len(want) > bad {
		vrtReach("frame-after-undecodable-delivered")
	}
	if h.reject && len(h.got) > h.rejectAt+1 {
		vrtReach("frame-after-unroutable-delivered")
	}
	if hdrMode && hdrAt < F && len(h.got) == F {
		vrtReach("frame-after-invalid-length-delivered")
	}
	vrtReach("done")
}

// VH_C11_frame_limit: a frame whose length field is just under the 4 MiB limit
// is accepted (body read, decode attempted); an invalid length (> limit, any
// symbolic value) never delivers anything as if valid.
func VH_C11_frame_limit() {
	const limit = 4 * 1024 * 1024
	switch vrtChoose(2) {
	case 0:
		n := limit - 1
		stream := make([]byte, 4+n)
		binary.BigEndian.PutUint32(stream, uint32(n))
		conn := &vhConn{stream: stream, cut: -1}
		h := &vhHandler{}
		c := &tcpConnectionActor{conn: conn, codec: vhFrameCodec{}, envelopHandler: h}
		ctx := &vhCtx{ref: &vhRef{"l:1", "/conn"}, stream: &vhStream{}}
		_, _ = c.onReadConn(ctx)
		vrtAssert(conn.pos == len(stream), "frame-just-under-limit-is-read")
		vrtAssert(ctx.kills == 0, "frame-just-under-limit-is-read")
		vrtReach("under-limit")
	case 1:
		l := vrtUint32()
		vrtAssume(l > limit)
		stream := make([]byte, 12)
		binary.BigEndian.PutUint32(stream, l)
		conn := &vhConn{stream: stream, cut: -1}
		h := &vhHandler{}
		c := &tcpConnectionActor{conn: conn, codec: vhFrameCodec{}, envelopHandler: h}
		ctx := &vhCtx{ref: &vhRef{"l:1", "/conn"}, stream: &vhStream{}}
		_, err := c.onReadConn(ctx)
		vrtAssert(err != nil, "oversize-length-is-error")
		vrtAssert(len(h.got) == 0, "oversize-length-delivers-nothing")
		vrtReach("over-limit")
	}
}

// VH_C13_handshake_total: Handshake.Wait on an arbitrary first read.
func VH_C13_handshake_total() {
	n := vrtChoose(vrtParam("N", 8) + 1)
	data := vrtBytes(n)
	conn := &vhConn{stream: data, cut: -1}
	h := &Handshake{AdvertiseAddr: "keep"}
	defer func() {
		if r := recover(); r != nil {
			if _, mine := r.(vrtAssertFailed); mine {
				panic(r)
			}
			if _, mine := r.(vrtAssumeFailed); mine {
				panic(r)
			}
			if _, mine := r.(vrtExhausted); mine {
				panic(r)
			}
			vrtAssert(false, "decode-no-panic")
		}
	}()
	err := h.Wait(conn)
	if err != nil {
		vrtReach("handshake-error")
		vrtAssert(h.AdvertiseAddr == "keep", "caller-untouched-on-error")
	} else {
		vrtReach("handshake-ok")
	}
}

// ---------------------------------------------------------------------------
// C14 sender side

type vhLiaison struct{ vivid.ActorLiaison }

func (vhLiaison) Logger() log.Logger { return log.GetDefault() }

// vhFailConn fails its first `fails` writes.
type vhFailConn struct {
	vhConn
	fails int
}

func (c *vhFailConn) Write(p []byte) (int, error) {
	if c.fails > 0 {
		c.fails--
		return 0, errors.New("broken pipe")
	}
	return c.vhConn.Write(p)
}

// vhSleeps counts time.Sleep calls observed natively through the clock: the
// engine records them in its stub; natively the harness measures elapsed time.
func vhNewSender(limit int, conn net.Conn) (*Mailbox, *vhHandler) {
	h := &vhHandler{}
	opts := vivid.NewActorSystemRemotingOptions()
	opts.ReconnectLimit = limit
	m := newMailbox(context.Background(), "127.0.0.1:1", vhFrameCodec{}, h, vhLiaison{}, &vhRef{"l:1", "/@remoting"}, &vhStream{}, opts)
	if conn != nil {
		m.connection = &tcpConnectionActor{client: true, conn: conn, codec: vhFrameCodec{}, envelopHandler: h, advertiseAddr: "127.0.0.1:1"}
	}
	return m, h
}

// VH_C14_send_faults: Enqueue on a connection whose first `fails` writes fail
// and whose re-dial is refused, for every reconnect limit 0..2.
func VH_C14_send_faults() {
	limit := vrtChoose(3)
	fails := vrtChoose(3)
	conn := &vhFailConn{vhConn: vhConn{cut: -1}, fails: fails}
	m, h := vhNewSender(limit, conn)
	body := []byte{7, vrtUint8()}
	vrtAssume(body[1] != 0xEE)
	env := &vhEnv{sender: &vhRef{"s:1", "/s"}, receiver: &vhRef{"127.0.0.1:1", "/r"}, msg: &vhBody{B: body}}
	vrtSleepReset()
	m.Enqueue(env)
	slept := vrtSlept()
	wrote := len(conn.written)
	failed := len(h.failed)
	vrtAssert(wrote <= 1, "frame-written-at-most-once")
	vrtAssert(failed <= 1, "dead-lettered-at-most-once")
	vrtAssert(wrote+failed == 1, "written-xor-dead-lettered")
	if fails == 0 {
		vrtAssert(wrote == 1 && failed == 0, "healthy-connection-writes")
		want, err := m.encodeEnvelopWithLength(env)
		vrtAssert(err == nil && len(conn.written[0]) == len(want), "frame-is-length-prefixed-envelope")
		for i := range want {
			vrtAssert(conn.written[0][i] == want[i], "frame-is-length-prefixed-envelope")
		}
		vrtReach("written")
	} else {
		// the connection is dropped after the failed write and the re-dial is refused
		vrtAssert(failed == 1 && wrote == 0, "unwritable-message-is-dead-lettered")
		vrtReach("dead-lettered")
	}
	// recovery: a later message over a healthy connection is written
	good := &vhFailConn{vhConn: vhConn{cut: -1}}
	m.connection = &tcpConnectionActor{client: true, conn: good, codec: vhFrameCodec{}, envelopHandler: h}
	m.Enqueue(env)
	vrtAssert(len(good.written) == 1, "recovers-after-failure")
	// encode failure: dead letter, no retry
	before := len(h.failed)
	m.Enqueue(&vhEnv{sender: &vhRef{"s:1", "/s"}, receiver: &vhRef{"127.0.0.1:1", "/r"}, msg: "not-encodable"})
	vrtAssert(len(h.failed) == before+1 && len(good.written) == 1, "encode-failure-dead-letters-without-retry")
	// Tell must not put the caller to sleep while delivery is retried
	if fails > 0 && limit > 0 {
		vrtReach("retried")
		vrtAssert(!slept, "caller-never-sleeps")
	}
}

// vhSrvCtx is the server actor's context for the registration lemma: ActorOf
// enforces unique child names like the real one.
type vhSrvCtx struct {
	vivid.ActorContext
	names   map[string]bool
	errs    int
	replies int
	stream  *vhStream
}

func (c *vhSrvCtx) Logger() log.Logger             { return log.GetDefault() }
func (c *vhSrvCtx) EventStream() vivid.EventStream { return c.stream }
func (c *vhSrvCtx) Reply(message vivid.Message)    { c.replies++ }
func (c *vhSrvCtx) ActorOf(actor vivid.Actor, options ...vivid.ActorOption) (vivid.ActorRef, error) {
	o := &vivid.ActorOptions{}
	for _, f := range options {
		f(o)
	}
	if c.names[o.Name] {
		c.errs++
		return nil, vivid.ErrorActorAlreadyExists
	}
	c.names[o.Name] = true
	return &vhRef{"l:1", "/@remoting/" + o.Name}, nil
}

// VH_C14_redial_registers: a second connection to the same peer can be
// registered while the actor of an earlier one still exists (a clean EOF at a
// frame boundary leaves the old reader lingering; TCP gives the redial another
// ephemeral local port, an accepted connection another remote port): otherwise
// "once the peer is reachable again later messages are delivered" fails.
func VH_C14_redial_registers() {
	opts := vivid.NewActorSystemRemotingOptions()
	s := NewServerActor(context.Background(), "l:1", "l:1", vhFrameCodec{}, &vhHandler{}, opts)
	ctx := &vhSrvCtx{names: map[string]bool{}, stream: &vhStream{}}
	p1, p2 := vrtChoose(3), vrtChoose(3)
	vrtAssume(p1 != p2) // two open connections never share the 4-tuple
	ports := []string{"50001", "50002", "50003"}
	client := vrtBool()
	mk := func(port string) *tcpConnectionActor {
		conn := &vhConn{cut: -1}
		if client {
			conn.raddr, conn.laddr = "peer:9", "l:"+port
		} else {
			conn.raddr, conn.laddr = "peer:"+port, "l:1"
		}
		return &tcpConnectionActor{client: client, conn: conn, codec: vhFrameCodec{}, envelopHandler: &vhHandler{}, advertiseAddr: "peer:9"}
	}
	s.onConnection(ctx, mk(ports[p1]))
	s.onConnection(ctx, mk(ports[p2]))
	vrtAssert(ctx.errs == 0 && ctx.replies == 2, "second-connection-to-the-same-peer-is-registered")
	if client {
		vrtReach("dial")
	} else {
		vrtReach("accept")
	}
}
