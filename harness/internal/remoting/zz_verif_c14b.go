//go:build verif

package remoting

import (
	"encoding/binary"
	"errors"
	"io"
	"net"
	"sync"
	"time"

	"github.com/kercylan98/vivid"
	"github.com/kercylan98/vivid/internal/messages"
)

// C14 sender side with a peer that can be (re)dialled: net.Dial is redirected
// (engine only; counterexamples are confirmed by concrete re-execution in the
// interpreter) to a fake whose outcome per attempt is a symbolic fault
// schedule: the dial is refused, or it succeeds (the handshake completes and the
// connection is registered) and the write of the frame then succeeds or fails.

type vhDoneFuture struct{ err error }

func (f vhDoneFuture) Close(error)                    {}
func (f vhDoneFuture) Result() (vivid.Message, error) { return nil, f.err }
func (f vhDoneFuture) Wait() error                    { return f.err }
func (f vhDoneFuture) PipeTo(vivid.ActorRefs) error   { return nil }

type vhAskLiaison struct {
	vhLiaison
	asks int
}

func (l *vhAskLiaison) Ask(recipient vivid.ActorRef, message vivid.Message, timeout ...time.Duration) vivid.Future[vivid.Message] {
	l.asks++
	return vhDoneFuture{}
}

// vhRedialConn answers the client handshake and then accepts or fails frame writes.
type vhRedialConn struct {
	vhConn
	writes    int
	failFrame bool
	frames    [][]byte
}

func (c *vhRedialConn) Write(p []byte) (int, error) {
	c.writes++
	if c.writes == 1 {
		return len(p), nil // the handshake
	}
	if c.failFrame {
		return 0, errors.New("connection reset by peer")
	}
	c.frames = append(c.frames, append([]byte{}, p...))
	return len(p), nil
}

func VH_C14_send_redial() {
	limit := []int{0, 1, 2, 6, 10}[vrtChoose(5)] // 10 is the library default
	attempts := int(vrtParam("attempts", 4))
	dialFail := make([]bool, attempts)
	writeFail := make([]bool, attempts)
	for i := range dialFail {
		dialFail[i] = vrtBool()
		if !dialFail[i] {
			writeFail[i] = vrtBool()
		}
	}
	hw := messages.NewWriter()
	_ = hw.WriteFrom("127.0.0.1:1")
	reply := append([]byte{}, hw.Bytes()...)
	var conns []*vhRedialConn
	dials := 0
	vrtRedirect("net.Dial", func(network, address string) (net.Conn, error) {
		i := dials
		dials++
		// checked as it happens: a sender that never gives up would otherwise never return
		vrtAssert(dials <= limit+1, "attempts-bounded-by-reconnect-limit")
		if i >= attempts || dialFail[i] {
			return nil, errors.New("connection refused")
		}
		c := &vhRedialConn{vhConn: vhConn{stream: reply, cut: -1}, failFrame: writeFail[i]}
		conns = append(conns, c)
		return c, nil
	})
	m, h := vhNewSender(limit, nil)
	m.actorLiaison = &vhAskLiaison{}
	body := []byte{7, vrtUint8()}
	env := &vhEnv{sender: &vhRef{"s:1", "/s"}, receiver: &vhRef{"127.0.0.1:1", "/r"}, msg: &vhBody{B: body}}
	m.Enqueue(env)

	wrote := 0
	for _, c := range conns {
		wrote += len(c.frames)
	}
	failed := len(h.failed)
	vrtAssert(wrote <= 1, "frame-written-at-most-once")
	vrtAssert(failed <= 1, "dead-lettered-at-most-once")
	vrtAssert(wrote+failed == 1, "written-xor-dead-lettered")
	// one initial attempt plus at most `limit` reconnect attempts, then the
	// message is a dead letter — whatever mix of refused dials and writes that
	// fail on freshly established connections the peer produces
	vrtAssert(dials <= limit+1, "attempts-bounded-by-reconnect-limit")
	if wrote == 1 {
		vrtReach("written-after-redial")
	} else {
		vrtReach("dead-lettered-after-redials")
	}
	// recovery: once the peer is reachable again a later message is delivered
	dials = 0
	dialFail = make([]bool, limit+2)
	writeFail = make([]bool, limit+2)
	attempts = len(dialFail)
	m.Enqueue(env)
	wrote2 := 0
	for _, c := range conns {
		wrote2 += len(c.frames)
	}
	vrtAssert(wrote2 == wrote+1, "recovers-once-the-peer-is-reachable-again")
}

// ---------------------------------------------------------------------------
// C11: connection establishment. Two ends of an in-memory duplex link whose
// Read returns EVERYTHING that has arrived so far in one call (maximal
// coalescing) and blocks while nothing has arrived; the real dialler-side and
// acceptor-side connection actors run on two goroutines in preemptive mode.

type vhPipeEnd struct {
	vhConn
	in      chan []byte
	peer    *vhPipeEnd
	pending []byte
	eof     bool
	// deadlines as net.Conn documents them: absolute instants; once passed, every
	// Read / Write fails until the deadline is moved or cleared (zero value)
	rdl, wdl time.Time
}

var vhErrDeadline = errors.New("i/o timeout (deadline exceeded)")

func (c *vhPipeEnd) SetDeadline(t time.Time) error      { c.rdl, c.wdl = t, t; return nil }
func (c *vhPipeEnd) SetReadDeadline(t time.Time) error  { c.rdl = t; return nil }
func (c *vhPipeEnd) SetWriteDeadline(t time.Time) error { c.wdl = t; return nil }

func vhNewPipe() (*vhPipeEnd, *vhPipeEnd) {
	a := &vhPipeEnd{vhConn: vhConn{cut: -1}, in: make(chan []byte, 32)}
	b := &vhPipeEnd{vhConn: vhConn{cut: -1}, in: make(chan []byte, 32)}
	a.peer, b.peer = b, a
	return a, b
}

func (c *vhPipeEnd) Write(p []byte) (int, error) {
	if !c.wdl.IsZero() && time.Now().After(c.wdl) {
		return 0, vhErrDeadline
	}
	c.peer.in <- append([]byte{}, p...)
	return len(p), nil
}

func (c *vhPipeEnd) CloseWrite() { close(c.peer.in) }

func (c *vhPipeEnd) Read(p []byte) (int, error) {
	if !c.rdl.IsZero() && time.Now().After(c.rdl) {
		return 0, vhErrDeadline
	}
	if len(c.pending) == 0 && !c.eof {
		b, ok := <-c.in
		if !ok {
			c.eof = true
		} else {
			c.pending = b
		}
	}
	for !c.eof {
		more := false
		select {
		case b, ok := <-c.in:
			if !ok {
				c.eof = true
			} else {
				c.pending = append(c.pending, b...)
				more = true
			}
		default:
		}
		if !more {
			break
		}
	}
	if len(c.pending) == 0 {
		return 0, io.EOF
	}
	n := copy(p, c.pending)
	c.pending = c.pending[n:]
	return n, nil
}

// VH_C11_first_frames_after_handshake: the dialler establishes a connection
// (real handshake) and immediately sends two frames; the acceptor runs its real
// handshake and then the real read loop. Whatever the interleaving and however
// the link coalesces, both frames are delivered, in order.
func VH_C11_first_frames_after_handshake() {
	dial, acc := vhNewPipe()
	b1 := []byte{1, vrtUint8()}
	b2 := []byte{2, vrtUint8()}
	h := &vhHandler{}
	var wg sync.WaitGroup
	var dialErr, accErr error
	wg.Add(2)
	go func() {
		defer wg.Done()
		_, dialErr = newTCPConnectionActor(true, dial, "srv:1", vhFrameCodec{}, &vhHandler{})
		if dialErr == nil {
			_, _ = dial.Write(vhFrame(b1, false))
			_, _ = dial.Write(vhFrame(b2, false))
		}
		dial.CloseWrite()
	}()
	go func() {
		defer wg.Done()
		var c *tcpConnectionActor
		c, accErr = newTCPConnectionActor(false, acc, "srv:1", vhFrameCodec{}, h)
		if accErr != nil {
			return
		}
		ctx := &vhCtx{ref: &vhRef{"l:1", "/conn"}, stream: &vhStream{}}
		vhDrive(c, ctx, 16)
	}()
	wg.Wait()
	vrtAssert(dialErr == nil && accErr == nil, "handshake-completes")
	vrtAssert(len(h.got) == 2, "every-frame-delivered")
	for i, want := range [][]byte{b1, b2} {
		if i < len(h.got) {
			g, ok := h.got[i].msg.(*vhBody)
			vrtAssert(ok && len(g.B) == 2 && g.B[0] == want[0] && g.B[1] == want[1], "delivered-intact-in-order")
		}
	}
	vrtReach("established-and-delivered")
}

// VH_C11_link_outlives_handshake: the same establishment, then the link stays
// healthy and idle for longer than the handshake's own time limit (virtual
// clock; the in-memory link honours read/write deadlines the way net.Conn
// documents them). Frames sent afterwards are written without error and
// delivered: a time limit meant for the handshake must not end the connection.
func VH_C11_link_outlives_handshake() {
	dial, acc := vhNewPipe()
	b1 := []byte{1, vrtUint8()}
	h := &vhHandler{}
	var dialErr, accErr, writeErr error
	established := make(chan struct{})
	var wg sync.WaitGroup
	wg.Add(2)
	go func() {
		defer wg.Done()
		_, dialErr = newTCPConnectionActor(true, dial, "srv:1", vhFrameCodec{}, &vhHandler{})
		if dialErr == nil {
			<-established // both handshakes are done
			vrtAdvance(time.Duration(vrtParam("idle_s", 11)) * time.Second)
			_, writeErr = dial.Write(vhFrame(b1, false))
		}
		dial.CloseWrite()
	}()
	go func() {
		defer wg.Done()
		var c *tcpConnectionActor
		c, accErr = newTCPConnectionActor(false, acc, "srv:1", vhFrameCodec{}, h)
		close(established)
		if accErr != nil {
			return
		}
		ctx := &vhCtx{ref: &vhRef{"l:1", "/conn"}, stream: &vhStream{}}
		vhDrive(c, ctx, 16)
	}()
	wg.Wait()
	vrtRaceOff()
	vrtAssert(dialErr == nil && accErr == nil, "handshake-completes")
	vrtAssert(writeErr == nil, "healthy-idle-link-still-writable-after-the-handshake-time-limit")
	vrtAssert(len(h.got) == 1, "frame-sent-after-idle-period-delivered")
	vrtReach("idle-then-delivered")
}

// VH_C11_concurrent_senders: two goroutines send through one remoting mailbox
// (one connection) at the same time. Every envelope is written as exactly one
// whole frame (no interleaved bytes), each exactly once, one sender's envelopes
// in its program order; no data race on the connection state.
func VH_C11_concurrent_senders() {
	conn := &vhFailConn{vhConn: vhConn{cut: -1}}
	m, h := vhNewSender(0, conn)
	x := vrtUint8()
	mk := func(tag byte) *vhEnv {
		return &vhEnv{sender: &vhRef{"s:1", "/s"}, receiver: &vhRef{"127.0.0.1:1", "/r"}, msg: &vhBody{B: []byte{tag, x}}}
	}
	a1, a2, b1 := mk(1), mk(2), mk(3)
	var wg sync.WaitGroup
	wg.Add(2)
	go func() {
		defer wg.Done()
		m.Enqueue(a1)
		m.Enqueue(a2)
	}()
	go func() {
		defer wg.Done()
		m.Enqueue(b1)
	}()
	wg.Wait()
	vrtRaceOff()
	vrtAssert(len(h.failed) == 0, "healthy-connection-writes")
	vrtAssert(len(conn.written) == 3, "one-write-per-envelope")
	pos := map[byte]int{}
	for i, wr := range conn.written {
		matched := false
		for _, e := range []*vhEnv{a1, a2, b1} {
			want, err := m.encodeEnvelopWithLength(e)
			vrtAssert(err == nil, "frame-encodes")
			if len(want) == len(wr) {
				same := true
				for j := range want {
					if want[j] != wr[j] {
						same = false
					}
				}
				if same {
					matched = true
					pos[e.msg.(*vhBody).B[0]] = i + 1
				}
			}
		}
		vrtAssert(matched, "each-write-is-one-whole-frame")
	}
	vrtAssert(pos[1] > 0 && pos[2] > 0 && pos[3] > 0, "every-envelope-written-exactly-once")
	vrtAssert(pos[1] < pos[2], "per-sender-order-on-the-wire")
	vrtReach("all-written")
}

// VH_C11_frames_large: frames whose size is around the connection reader's
// buffer (4096 bytes) and a multiple of it: a big frame followed by a small
// one, everything available at once, so the reads are cut by the buffer size
// (inside the length prefix of the second frame, inside its body, exactly
// between the two). Both bodies arrive intact, in order.
func VH_C11_frames_large() {
	lens := []int{4000, 4083, 4084, 4085, 4086, 4087, 4088, 4089, 4090, 4091, 4092, 4093, 4096, 4100, 8180, 8190, 8200}
	l1 := lens[vrtChoose(len(lens))]
	b1 := make([]byte, l1)
	for i := range b1 {
		b1[i] = byte(1 + i%200)
	}
	b1[1], b1[l1-1] = vrtUint8(), vrtUint8()
	b2 := []byte{2, vrtUint8(), vrtUint8()}
	stream := append(vhFrame(b1, false), vhFrame(b2, true)...)
	conn := &vhConn{stream: stream, partials: 0, cut: -1}
	h := &vhHandler{}
	c := &tcpConnectionActor{conn: conn, codec: vhFrameCodec{}, envelopHandler: h, advertiseAddr: "peer:1"}
	ctx := &vhCtx{ref: &vhRef{"l:1", "/conn"}, stream: &vhStream{}}
	vhDrive(c, ctx, 16)
	vrtAssert(len(h.got) == 2, "every-frame-delivered")
	for i, want := range [][]byte{b1, b2} {
		if i < len(h.got) {
			g, ok := h.got[i].msg.(*vhBody)
			vrtAssert(ok && len(g.B) == len(want), "delivered-intact-in-order")
			if ok && len(g.B) == len(want) {
				for j := range want {
					vrtAssert(g.B[j] == want[j], "delivered-intact-in-order")
				}
			}
		}
	}
	if len(h.got) == 2 {
		vrtAssert(!h.got[0].system && h.got[1].system, "system-flag-survives")
	}
	vrtReach("large-frames")
}

// VH_C13_handshake_large: a peer that sends a LOT of bytes as its handshake
// (more than the 4096-byte buffer the parser reads into), with an arbitrary
// length prefix: Wait returns a value or an error after work in proportion to
// the input; it does not spin.
func VH_C13_handshake_large() {
	total := []int{4095, 4096, 4097, 5000}[vrtChoose(4)]
	data := make([]byte, total)
	for i := range data {
		data[i] = byte('a' + i%26)
	}
	// the declared length of the address string: a concrete choice around the
	// buffer size and at the extremes (a symbolic one would turn every iteration
	// of a length-driven loop into a solver decision and hit the decision budget
	// before the step limit)
	l := []uint32{0, 10, 4090, 4091, 4092, 4093, 4096, 5000, 1 << 31, 0xFFFFFFFF}[vrtChoose(10)]
	binary.BigEndian.PutUint32(data[:4], l)
	conn := &vhConn{stream: data, cut: -1}
	h := &Handshake{AdvertiseAddr: "keep"}
	defer func() {
		if r := recover(); r != nil {
			if _, mine := r.(vrtAssertFailed); mine {
				panic(r)
			}
			if _, mine := r.(vrtAssumeFailed); mine {
				panic(r)
			}
			if _, mine := r.(vrtExhausted); mine {
				panic(r)
			}
			vrtAssert(false, "decode-no-panic")
		}
	}()
	vrtStepLimit(400000)
	err := h.Wait(conn)
	vrtStepLimit(0)
	if err != nil {
		vrtReach("handshake-error")
		vrtAssert(h.AdvertiseAddr == "keep", "caller-untouched-on-error")
	} else {
		vrtReach("handshake-ok")
	}
}
