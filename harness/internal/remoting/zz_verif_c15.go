//go:build verif

package remoting

import (
	"context"
	"net"

	"github.com/kercylan98/vivid"
)

// Helpers for the C15 harness in internal/actor: a remoting server object whose
// mailbox central is ready (no listener, no sockets) and whose per-address
// mailboxes write to an in-memory connection.

type VrtWire struct {
	vhConn
}

// Frames returns the frames written so far (without their length prefix).
func (w *VrtWire) Frames() [][]byte {
	var out [][]byte
	for _, f := range w.written {
		if len(f) >= 4 {
			out = append(out, f[4:])
		}
	}
	return out
}

func (w *VrtWire) Reset() { w.written = nil }

func VrtNewServer(advertiseAddr string, codec vivid.Codec, handler NetworkEnvelopHandler, liaison vivid.ActorLiaison, serverRef vivid.ActorRef, es vivid.EventStream) *ServerActor {
	opts := vivid.NewActorSystemRemotingOptions()
	opts.ReconnectLimit = 0
	sa := NewServerActor(context.Background(), advertiseAddr, advertiseAddr, codec, handler, opts)
	sa.remotingMailboxCentral = newMailboxCentral(context.Background(), serverRef, liaison, codec, es, opts)
	sa.remotingMailboxCentralWG.Done()
	return sa
}

// VrtConnect pre-establishes the outbound connection to addr over an in-memory wire.
func VrtConnect(sa *ServerActor, addr string, handler NetworkEnvelopHandler) *VrtWire {
	w := &VrtWire{vhConn{cut: -1}}
	m := sa.remotingMailboxCentral.GetOrCreate(addr, handler)
	var c net.Conn = w
	m.connection = &tcpConnectionActor{client: true, conn: c, codec: sa.codec, envelopHandler: handler, advertiseAddr: addr}
	return w
}

// VrtLiveWire is an outbound connection whose frames are handed to a callback
// at once (a healthy in-memory link); while Down it refuses every write (the
// peer crashed / is unreachable).
type VrtLiveWire struct {
	vhConn
	OnFrame func(frame []byte)
	Down    bool
	Sent    int
}

func (w *VrtLiveWire) Write(p []byte) (int, error) {
	if w.Down {
		return 0, vivid.ErrorRemotingMessageSendFailed
	}
	w.Sent++
	if len(p) >= 4 && w.OnFrame != nil {
		w.OnFrame(append([]byte{}, p[4:]...))
	}
	return len(p), nil
}

// VrtLiveConnect pre-establishes the outbound connection to addr over a live wire.
func VrtLiveConnect(sa *ServerActor, addr string, handler NetworkEnvelopHandler) *VrtLiveWire {
	w := &VrtLiveWire{vhConn: vhConn{cut: -1}}
	m := sa.remotingMailboxCentral.GetOrCreate(addr, handler)
	var c net.Conn = w
	m.connection = &tcpConnectionActor{client: true, conn: c, codec: sa.codec, envelopHandler: handler, advertiseAddr: addr}
	return w
}
