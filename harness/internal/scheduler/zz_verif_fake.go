//go:build verif

package scheduler

import (
	"context"

	"github.com/reugn/go-quartz/quartz"
)

// VrtFakeQuartz is a recording quartz.Scheduler: it keeps the job table and
// lets a harness fire jobs explicitly. Firing times are NOT modelled (trusted
// to go-quartz); bookkeeping and the delivery path are.
type VrtFakeQuartz struct {
	Jobs     map[string]*quartz.JobDetail
	Triggers map[string]quartz.Trigger
	Order    []string
	Deleted  []string
	Cleared  int
	Stopped  bool
	Refused  int
}

func VrtNewFakeQuartz() *VrtFakeQuartz {
	return &VrtFakeQuartz{Jobs: map[string]*quartz.JobDetail{}, Triggers: map[string]quartz.Trigger{}}
}

func VrtNewScheduler(q quartz.Scheduler) *Scheduler { return &Scheduler{scheduler: q} }

func (f *VrtFakeQuartz) Start(context.Context) {}
func (f *VrtFakeQuartz) IsStarted() bool       { return true }
func (f *VrtFakeQuartz) ScheduleJob(jobDetail *quartz.JobDetail, trigger quartz.Trigger) error {
	k := jobDetail.JobKey().Name()
	if _, dup := f.Jobs[k]; dup {
		// go-quartz contract (queue.Push without the Replace option): a key that
		// is still scheduled is refused and the earlier job stays as it is
		f.Refused++
		return quartz.ErrJobAlreadyExists
	}
	f.Order = append(f.Order, k)
	f.Jobs[k] = jobDetail
	f.Triggers[k] = trigger
	return nil
}
func (f *VrtFakeQuartz) GetJobKeys(...quartz.Matcher[quartz.ScheduledJob]) ([]*quartz.JobKey, error) {
	return nil, nil
}
func (f *VrtFakeQuartz) GetScheduledJob(jobKey *quartz.JobKey) (quartz.ScheduledJob, error) {
	return nil, quartz.ErrJobNotFound
}
func (f *VrtFakeQuartz) DeleteJob(jobKey *quartz.JobKey) error {
	k := jobKey.Name()
	f.Deleted = append(f.Deleted, k)
	if _, ok := f.Jobs[k]; !ok {
		return quartz.ErrJobNotFound
	}
	delete(f.Jobs, k)
	delete(f.Triggers, k)
	return nil
}
func (f *VrtFakeQuartz) PauseJob(jobKey *quartz.JobKey) error  { return nil }
func (f *VrtFakeQuartz) ResumeJob(jobKey *quartz.JobKey) error { return nil }
func (f *VrtFakeQuartz) Clear() error {
	f.Cleared++
	f.Jobs = map[string]*quartz.JobDetail{}
	f.Triggers = map[string]quartz.Trigger{}
	return nil
}
func (f *VrtFakeQuartz) Wait(context.Context) {}
func (f *VrtFakeQuartz) Stop()                { f.Stopped = true }

// Fire executes the job registered under key once (as go-quartz would at a
// firing instant). Returns false if no such job is registered.
func (f *VrtFakeQuartz) Fire(key string) bool {
	jd, ok := f.Jobs[key]
	if !ok {
		return false
	}
	_ = jd.Job().Execute(context.Background())
	// like the real scheduler: a trigger with no further fire time (run-once)
	// expires with its firing and the job leaves the queue
	if _, once := f.Triggers[key].(*quartz.RunOnceTrigger); once {
		delete(f.Jobs, key)
		delete(f.Triggers, key)
	}
	return true
}

// VrtNoopStop is a summary for Scheduler.Stop in Engine-B scenarios.
func VrtNoopStop(s *Scheduler) {}
