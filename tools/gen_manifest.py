#!/usr/bin/env python3
"""Regenerates /verif/MANIFEST.json from the table below (kept valid at all times)."""
import json, os
ROOT = os.path.dirname(os.path.dirname(os.path.abspath(__file__)))
props = [json.loads(l) for l in open(os.path.join(ROOT, 'properties.jsonl'))]

GOENV = "PATH=/opt/veriftools/go1.26.8/bin:$PATH GOTOOLCHAIN=local GOFLAGS=-mod=mod GOPROXY=off"
SETUP = f"cd /verif/engine && {GOENV} go build -o /verif/bin/vcheck ./cmd/vcheck"

# id -> (engine, category, technique, level text, level note, design ref)
CLAIMED = {
 "C02": ("symgo", "model_checking",
  "bounded symbolic execution of go/ssa (own SSA->SMT-LIB2 interpreter, z3) with native replay",
  "Bounded symbolic execution of the real ring buffer against a reference FIFO: all operation sequences of length L from New(size) for sizes 1..4, and one inductive Push/Pop/PopMany step from every valid ring state of capacity <= maxmod (head/tail phases case-split, payloads symbolic). A pass means: no input within these bounds violates FIFO order, Length(), or the ring invariant; counterexamples are replayed natively before being reported.",
  "Bounds L, size, maxmod as recorded in evidence; sync.Mutex and sync/atomic modelled in the engine; sequential (one schedule) — ordering under concurrent senders is not decided by this job set.",
  "DESIGN.md §3 C02"),
 "C16": ("symgo", "model_checking",
  "bounded symbolic execution of go/ssa (own SSA->SMT-LIB2 interpreter, z3) with native replay",
  "Every lattice law of the statement is an assertion over symbolic 64-bit counters and enumerated presence patterns (nil map / absent / explicit zero / present) for vectors over k node ids; Compare is checked against the point-wise order under every map iteration order. The solver decides feasibility of each comparison outcome combination and discharges the assertions; within the id-universe bound the claim covers all counter values.",
  "Universe of k ids (quick 2, thorough 3); counters <= 2^63-1 as documented; concrete node-id strings; stubs listed in evidence.",
  "DESIGN.md §3 C16"),
}

NA = {
}
DEFAULT_NA = "check not built yet (framework under construction; see DESIGN.md for the plan)"
FIXED_NA = {
 "C10": "data-race freedom of the whole concurrent API under all interleavings is a happens-before property over an open set of call sites and real goroutines; no bounded symbolic encoding of context.go+system.go+killed_handler.go together is within reach of the SSA encoders built here (DESIGN.md §4)",
 "C18": "gossip convergence is a liveness property of N NodeActors over remoting with timers, failure detection and rate limiters; its state and fairness assumption are beyond bounded symbolic execution of the real code (DESIGN.md §4); its algebraic core is decided under C16/C17",
}

checks = []
na = []
for p in props:
    pid = p["id"]
    if pid in CLAIMED:
        eng, cat, tech, text, note, ref = CLAIMED[pid]
        checks.append({
            "property_id": pid,
            "quick_cmd": f"./bin/vcheck {pid} --tier quick",
            "thorough_cmd": f"./bin/vcheck {pid} --tier thorough",
            "evidence_file": f"/verif/evidence/{pid}.json",
            "replay_cmd_template": f"./bin/vcheck {pid} --replay {{path}}",
            "engine": eng,
            "level_claimed": {"category": cat, "text": text, "design_ref": ref},
            "level_note": note,
            "technique": tech,
        })
    else:
        na.append({"property_id": pid, "reason": FIXED_NA.get(pid, NA.get(pid, DEFAULT_NA))})

m = {
 "version": 1,
 "setup_cmd": SETUP,
 "hooks": {
  "guard": "verif",
  "enable": "no source hooks in /repo: harness files (//go:build verif) are injected as overlay files by go/packages Overlay for analysis and by `go test -tags verif -overlay` for native replay",
  "baseline_off_cmd": "cd /repo && GOFLAGS=-mod=mod go test -vet=off -count=1 -timeout 25m ./...",
  "source_commits": [],
  "add_only": True,
 },
 "engines": [
  {"name": "symgo", "path": "/verif/engine/symgo", "serves_properties": sorted(k for k, v in CLAIMED.items() if v[0] in ("symgo", "symgo+tsgen")),
   "kind_free_text": "symbolic interpreter for go/ssa (fork of x/tools ssa/interp): scalars are SMT bit-vector terms, stateless dynamic symbolic execution over decision trails, z3 over one live pipe per worker, counterexamples replayed natively via go test -overlay"},
  {"name": "tsgen", "path": "/verif/engine/tsgen", "serves_properties": sorted(k for k, v in CLAIMED.items() if v[0] in ("tsgen", "symgo+tsgen")),
   "kind_free_text": "SSA subset -> pc-indexed transition relation; bounded model checking with the schedule as a symbolic vector"},
 ],
 "checks": checks,
 "not_applicable": na,
 "notes": "All checks rebuild SSA from /repo's working tree on every run. INCONCLUSIVE lines (unsupported construct, truncated bound, solver unknown, non-reproducing model) exit 0 and are listed under coverage.undischarged in the evidence.",
}
json.dump(m, open(os.path.join(ROOT, 'MANIFEST.json'), 'w'), indent=1)
print("claimed:", [c["property_id"] for c in checks])
