#!/usr/bin/env python3
"""Regenerates /verif/MANIFEST.json from the table below (kept valid at all times)."""
import json, os
ROOT = os.path.dirname(os.path.dirname(os.path.abspath(__file__)))
props = [json.loads(l) for l in open(os.path.join(ROOT, 'properties.jsonl'))]

GOENV = "PATH=/opt/veriftools/go1.26.8/bin:$PATH GOTOOLCHAIN=local GOFLAGS=-mod=mod GOPROXY=off"
SETUP = f"cd /verif/engine && {GOENV} go build -o /verif/bin/vcheck ./cmd/vcheck"

# id -> (engine, category, technique, level text, level note, design ref)
TECH_A = "bounded symbolic execution of go/ssa (own SSA->SMT-LIB2 interpreter, z3) with native replay"
TECH_B = "bounded model checking of an SSA-derived transition relation with a symbolic schedule (own encoder, z3), interpreter replay"
TECH_P = "bounded symbolic execution of go/ssa in preemptive mode (own interpreter: every schedule with <= P preemptions at sync/atomic/channel/go operations as engine choices in the path trail, happens-before race detector, z3 for data), counterexamples confirmed by solver-free concrete re-execution in the interpreter"
LEMMA = "Transition-level lemmas only: the composition from per-transition lemmas to the history/schedule-quantified statement is argued in DESIGN.md and is not machine-checked. "
CLAIMED = {
 "C01": ("symgo+tsgen", "model_checking", TECH_B + "; real ring under concurrency: " + TECH_P,
  "The real Enqueue/Pause/Resume/process/processHandle SSA is compiled into a pc-indexed transition relation and unrolled K steps with the schedule as solver variables: every interleaving (at atomic-operation granularity) of <=3 caller threads and the dynamically spawned consumer goroutines within K steps is covered for: one handler at a time, no message handled twice, no Pop-from-empty panic, every accepted message handled at quiescence without a later send, pause/resume semantics, handler re-entrancy, and termination of the consumer when nothing may be processed (no spin).",
  "Bounds K, goroutine pool, <=3 messages in the BMC jobs (evidence lists them and whether some schedule is not quiescent at K); ring buffer replaced by a FIFO summary in the BMC jobs, justified by C02 and by the ring_concurrent_* jobs of this check (the REAL RingQueue under two producers and an optional consumer, every schedule with <= P preemptions, happens-before race detector, symbolic items/fill/wrap position); sequential consistency for sync/atomic; counterexamples confirmed by replaying the schedule on the real SSA in the interpreter (not natively).",
  "DESIGN.md §3 C01, §2.2"),
 "C02": ("symgo+tsgen", "model_checking", TECH_A + "; per-sender order under concurrency: " + TECH_B + "; real ring under concurrent producers/consumer: " + TECH_P,
  "Ring buffer against a reference FIFO: all operation sequences of length L from New(size), sizes 1..4, plus one inductive Push/Pop/PopMany step from every valid ring state of capacity <= maxmod (payloads symbolic); stash/unstash order and the kill flag on the real Context; per-sender FIFO for two messages of one sender racing a second sender under every interleaving within K steps (tsgen); the real RingQueue under two producers (+ optional consumer) for every schedule with <= P preemptions: every accepted item out exactly once, per-producer order, no empty slot, no data race.",
  "Bounds L, size, maxmod, K, P in evidence; sync.Mutex and sync/atomic modelled in the engine; large-size jobs: ring at initial capacities 16/64/256 across growth with interleaved pops, stash of up to 130 messages, backlog of up to 130 user messages with a handler pausing the mailbox (crosses any batching threshold up to 128).",
  "DESIGN.md §3 C02"),
 "C03": ("symgo+tsgen", "model_checking", TECH_A + "; mailbox wake-up job: " + TECH_B,
  LEMMA + "One send over the product reference provenance x target state on the real tell/findMailbox/HandleEnvelop/guard/eventStream code: exactly one fate (processed, stashed, one dead letter); bounded work after system stop.",
  "One deterministic delivery schedule per sequence job (the mailbox wake-up job is BMC over all interleavings); recording mailboxes; the (provenance, state) cells are enumerated by hand; multi-step sequence jobs: child failing while its supervisor is stopping/restarting, target paused again while it lingers in killing.",
  "DESIGN.md §3 C03"),
 "C04": ("symgo+tsgen", "model_checking", TECH_B + "; registration lemmas: " + TECH_A,
  "The real Future (EnqueueMessage/Close/PipeTo/Result) under every interleaving within K steps of a replier, the timeout closer, a PipeTo caller and a waiter: one-shot completion, forwarder told exactly once with the final result, nobody blocked, exactly one of {reply, timeout}; plus, on the real Context.ask/appendFuture/removeFuture/doKill, 1..3 outstanding Asks completed in a solver-chosen order by reply / asker death / timeout-then-late-reply: own reply only, actor-dead on asker death, no registration left.",
  "One future, one forwarder; timer replaced by a thread in the BMC job (the virtual-clock job decides not-earlier-than-timeout sequentially); <=3 Asks of one asker; deterministic delivery inside the world; registration_live: the real asker/replier actors on the live system, every schedule with <= P preemptions (quick 1, thorough 2), race detector.",
  "DESIGN.md §3 C04"),
 "C07": ("symgo+tsgen", "model_checking", TECH_B + "; status table: " + TECH_A,
  "Real Start() run in setup, its guardian goroutine captured as a thread; a Stop() caller racing a second Stop() or a second Start() caller, root termination, optional stop timeout and external context cancel (also cancel alone, with no Stop call) under every interleaving within K steps: every call returns, no goroutine blocked forever, one winner, a concurrent Start is rejected and never re-runs the start chain, the root is killed exactly once, the scheduler stopped once, status stopped; plus every sequence of <=3 (thorough 5) real Start/Stop calls follows the error table.",
  "Root Kill, Scheduler.Stop, time.After and the start chain of a second Start summarised by ghost counters; no remoting/cluster in the Start chain; termination of the actor tree itself is C06's lemma.",
  "DESIGN.md §3 C07"),
 "C15": ("symgo", "model_checking", TECH_A,
  LEMMA + "Each ActorRef-taking operation (Tell, Kill immediate/poison, Watch, Unwatch, Ping, Ask/Reply, PipeTo) issued across two harness systems joined by an in-memory wire runs the real findMailbox -> remoting mailbox -> EncodeEnvelopWithRemoting -> DecodeEnvelopWithRemoting -> HandleRemotingEnvelop path with symbolic message contents; same observable effect as the local run.",
  "One deterministic delivery schedule; sockets/handshake replaced by an in-memory connection; harness codec for the user type (able to carry the nil message of a failed PipeResult, like a JSON codec); PipeTo forwarding of success, of a field-less reply, of a plain-error failure and of a timeout to a remote forwarder; no-codec configuration not run here (its totality is decided under C13, *_nocodec jobs).",
  "DESIGN.md §3 C15"),
 "C20": ("symgo", "model_checking", TECH_A,
  LEMMA + "Solver-chosen sequences of Once/Loop/Cancel/Clear/Kill/restart over 2 references x 2 actors with solver-chosen delays against a virtual clock on the real actor Scheduler / onScheduler / cleanupScheduler: exact firing counts, never before the delay, nothing after cancel/clear/death/restart, not-found for unknown references, original message value; invalid cron rejected and schedules nothing.",
  "go-quartz replaced by a fake with its documented contract (a pending key is refused, a run-once job expires with its firing); ops<=3 (4 thorough); owners with prefix-related paths (/a, /a1); cancellation racing the firing goroutine not quantified.",
  "DESIGN.md §3 C20"),
 "C05": ("symgo", "model_checking", TECH_A,
  LEMMA + "Dead actors run nothing; restart under every hook-outcome combination (fresh instance, behaviour reset, exactly one OnLaunch to the restarted actor only, zombie on hook failure); OnLaunch first and prelaunch failure on the real ActorOf.",
  "One deterministic delivery schedule for the lemma jobs; small trees; hooks modelled by harness actors; launch_first_live: live system with a spawn-event listener greeting every new actor, every schedule with <= P preemptions (quick 1, thorough 2).",
  "DESIGN.md §3 C05"),
 "C06": ("symgo", "model_checking", TECH_A,
  LEMMA + "Kill (poison symbolic, optionally repeated) of an actor with 0..2 children, a grandchild, 0..2 watchers, subscription and scheduled job: subtree terminated children-first, each notice/event exactly once, path released and reusable, subscriptions and jobs gone.",
  "One deterministic delivery schedule; sequences: respawn under the same name from the OnKilled handler, rejected duplicate spawn before the kill, zombie released exactly once, up to 70 children; kills racing spawns from other goroutines are C10 scenarios.",
  "DESIGN.md §3 C06"),
 "C08": ("symgo", "model_checking", TECH_A,
  LEMMA + "Every decision x {one-for-one, one-for-all} x {panic, Failed} with a sibling subtree and a bystander, run to quiescence on the real supervision code: strategy consulted once, exactly the targets touched, directive semantics, escalation ends in default stop, no supervision while stopping.",
  "One deterministic delivery schedule per sequence; escalation chains of 1-2 hops; sequences: failure while stopping, child failing while its supervisor is restarting/stopping, second failure (in a system-message handler) while the first decision is pending, failing child with a live child of its own.",
  "DESIGN.md §3 C08"),
 "C09": ("symgo", "model_checking", TECH_A,
  LEMMA + "Same runs as C08 plus restart-hook failures: no survivor left paused or with undelivered mail, later mail processed, queued burst delivered in order around restart/resume, zombie semantics, mailbox commands.",
  "One deterministic delivery schedule per sequence; mailbox part under concurrency is C01; sequences as C08 plus zombie + failing sibling under one-for-all and explicit/parent release of the zombie.",
  "DESIGN.md §3 C09"),
 "C11": ("symgo", "model_checking", TECH_A,
  "Framing layer: F frames with symbolic bodies through the real onReadConn/bufio/io.ReadFull/decode path over a fake connection whose reads are segmented at every feasible length (coalescing and splitting explored): every body exactly once, intact, in order, sender designates the original; 4 MiB boundary job.",
  "F<=3 frames, bodies <=2 bytes, bounded number of short reads; frames of 4000..8200 bytes around the 4096-byte reader buffer (reads cut by the buffer); connection establishment: real dialler and acceptor handshakes + first frames over a maximally coalescing duplex link, and two goroutines sending through one remoting mailbox, each under every schedule with <= P preemptions (quick 2, thorough 3); an established link idle for longer than the handshake's time limit stays usable (deadline-honouring in-memory link, virtual clock; found and repaired: handshake deadlines never cleared, fix 54df147); real sockets/TLS outside.",
  "DESIGN.md §3 C11"),
 "C12": ("symgo", "model_checking", TECH_A,
  "For every message type in the wire registry: symbolic value (full-width integers, strings/bytes of every length 0..maxlen with symbolic content, nested payloads, valid refs) -> real EncodeEnvelopWithRemoting -> real DecodeEnvelopWithRemoting -> field-wise equality and unchanged envelope metadata; primitive writer/reader agreement for every supported type incl. varints, reflection path and length-prefix boundaries; payload lengths across the writer's buffer-growth boundaries (every length in 190..270 quick, 0..1100 thorough, contents symbolic) for the types with a variable-size field; registry coverage guard.",
  "Size bounds as in evidence; int fields that travel as int32 assumed in range; time.Time abstracted to UnixNano.",
  "DESIGN.md §3 C12"),
 "C13": ("symgo", "model_checking", TECH_A,
  "Every registered reader, the envelope decoder, ReadMessage, the version-vector/node-state/view readers, the primitive and reflective Reader and the handshake on every byte string of length 0..N with all bytes symbolic: every runtime panic site and every allocation size is a solver query; every truncation and single-byte corruption of valid envelopes; encoding of unsupported values returns an error (stack depth bounded); pooled readers/writers are clean; envelope decoder/encoder also with NO Codec configured (found and repaired: nil-Codec method call panics, fix 0b39a69).",
  "Input length bounds per decoder in evidence; allocation budget 65536 elements; representative values for large sizes.",
  "DESIGN.md §3 C13"),
 "C14": ("symgo", "model_checking", TECH_A,
  "Receiver: connection cut after every byte offset (EOF or error), optional undecodable frame: delivered = exactly the decodable frames completely before the cut, intact, in order, once; actor stops. Sender: write-failure schedule x reconnect limit on the real Enqueue/backoff path: written xor dead-lettered, recovery, encode failure not retried, caller not put to sleep (open known finding); with net.Dial redirected to a fake peer: a symbolic per-attempt schedule of refused dials / established connections whose frame write fails, attempts bounded by the reconnect limit, recovery once reachable.",
  "F=2..3 frames; <=4 (6) redial attempts; time.Sleep recorded by stub / measured natively; the redial job's counterexamples are confirmed by concrete re-execution in the interpreter (net.Dial cannot be redirected natively).",
  "DESIGN.md §3 C14"),
 "C16": ("symgo", "model_checking", TECH_A,
  "Every lattice law of the statement is an assertion over symbolic 64-bit counters and enumerated presence patterns (nil map / absent / explicit zero / present) for vectors over k node ids; Compare is checked against the point-wise order under every map iteration order.",
  "Universe of k ids (quick 2, thorough 3); counters <= 2^63-1 as documented; concrete node-id strings.",
  "DESIGN.md §3 C16"),
 "C17": ("symgo", "model_checking", TECH_A,
  "Real MergeFromWithOptions/AddMember/Snapshot/IsNewerThan on arbitrary reachable views over k member ids with symbolic generations, clocks, timestamps, epochs, counters, skew option and strategy: union, newest incarnation, no regression, monotone epoch and member version-vector entries, changed flag, commutative/idempotent/associative on membership, clones.",
  "Reachability predicate of views (LogicalClock>=1, VV mentions only members, ...); k ids; membership and epoch dimensions in separate jobs.",
  "DESIGN.md §3 C17"),
 "C19": ("symgo", "model_checking", TECH_A,
  "Every sequence of L operations {Subscribe, Unsubscribe, UnsubscribeAll, Publish} x 2 subscribers x 2 event types on the real eventStream against a reference set; termination removes, restart keeps subscriptions.",
  "L<=4 for the sequence job; concurrent[5 variants]: operations of different actors racing (two first subscribers, subscribe vs the last subscriber leaving, two publishers) under every schedule with <= P preemptions (quick 2, thorough 3) with the race detector; up to 100 subscribers of one type.",
  "DESIGN.md §3 C19"),
 "C10": ("symgo", "model_checking", TECH_P,
  "Bounded scenario set (13 scenarios) on a LIVE mini system (real System, root guard actor, Contexts, UnboundedMailbox and consumer goroutines, eventStream, Future): 2-3 goroutines call ActorSystem.ActorOf/Tell/Ask/Kill/FindActor, event-stream Subscribe/Publish, Future Result/Close/PipeTo and share one ActorRef while actors are spawned, fail (supervised), reply and terminate. Every schedule with at most P preemptions (quick 1, thorough 2) at sync / sync/atomic / channel / go operations is executed on the real SSA with a vector-clock happens-before race detector over every load, store and map access: no data race, no panic/fatal, no deadlock, actor tree consistent at quiescence, same name spawned concurrently wins once, concurrent Asks each get a reply.",
  "Thirteen fixed scenarios (plus the mailbox ring under concurrent producers and the live mailbox), not the open set of call sites; preemption bound P relative to a FIFO scheduler at blocking points; plain accesses between sync operations are not schedule points (races are still detected by happens-before, independent of the schedule point granularity); remoting and cluster are not started; struct-level vs field-level conflicts and accesses inside engine-modelled std functions are not tracked (can only hide a race). Found and repaired: concurrent map writes on the root's children map (fix 8d6473b), an actor spawned during Stop surviving the stop (fix 3138e01).",
  "DESIGN.md §9.6"),
 "C18": ("symgo", "model_checking", "bounded symbolic execution of go/ssa (own interpreter, z3): the real NodeActors of 2-3 live systems run in the interpreter over in-memory links with harness-fired timers and a virtual clock; solver-chosen fault (none / crash of a non-seed node / crash and restart); counterexamples confirmed by solver-free concrete re-execution in the interpreter",
  "Bounded gossip scenarios on the real code (join through the seed via Ask, gossip rounds, MergeFromWithOptions, failure detection, ComputeLeaderAddr, the real wire codec for every cluster message between the nodes): after the faults stop and R rounds, every running node holds exactly the running nodes, all compute the same leader and exactly one considers itself leader, a restarted node is present with a higher generation, a quiet healthy cluster announces nothing, further rounds change nothing. Two genuine defects found: the idle-cluster flapping (fixed, 924fe84) and the never-removed crashed member (open known finding).",
  "N <= 3 nodes, one seed, one DC; one delivery schedule per scenario (every node gossips once per round, then every node runs failure detection once; healthy links deliver at once); 'eventually' is 'within R rounds' (R = 10 quick / 20 thorough after a crash); rand.Shuffle identity; partitions, leave, multi-DC, quorum loss and singletons not modelled; the solver's part is small here (fault choice, path feasibility) - this is a bounded execution of the real protocol code, not a convergence proof.",
  "DESIGN.md §9.8"),
}

NA = {
}
DEFAULT_NA = "check not built yet (framework under construction; see DESIGN.md for the plan)"
FIXED_NA = {
}

checks = []
na = []
for p in props:
    pid = p["id"]
    if pid in CLAIMED:
        eng, cat, tech, text, note, ref = CLAIMED[pid]
        checks.append({
            "property_id": pid,
            "quick_cmd": f"./bin/vcheck {pid} --tier quick",
            "thorough_cmd": f"./bin/vcheck {pid} --tier thorough",
            "evidence_file": f"/verif/evidence/{pid}.json",
            "replay_cmd_template": f"./bin/vcheck {pid} --replay {{path}}",
            "engine": eng,
            "level_claimed": {"category": cat, "text": text, "design_ref": ref},
            "level_note": note,
            "technique": tech,
        })
    else:
        na.append({"property_id": pid, "reason": FIXED_NA.get(pid, NA.get(pid, DEFAULT_NA))})

m = {
 "version": 1,
 "setup_cmd": SETUP,
 "hooks": {
  "guard": "verif",
  "enable": "no source hooks in /repo: harness files (//go:build verif) are injected as overlay files by go/packages Overlay for analysis and by `go test -tags verif -overlay` for native replay",
  "baseline_off_cmd": "cd /repo && GOFLAGS=-mod=mod go test -vet=off -count=1 -timeout 25m ./...",
  "source_commits": [],
  "add_only": True,
 },
 "engines": [
  {"name": "symgo", "path": "/verif/engine/symgo", "serves_properties": sorted(k for k, v in CLAIMED.items() if v[0] in ("symgo", "symgo+tsgen")),
   "kind_free_text": "symbolic interpreter for go/ssa (fork of x/tools ssa/interp): scalars are SMT bit-vector terms, stateless dynamic symbolic execution over decision trails, z3 over one live pipe per worker, counterexamples replayed natively via go test -overlay; preemptive mode: bounded-preemption schedule choices in the trail, vector-clock happens-before race detector, solver-free concrete re-execution of counterexamples"},
  {"name": "tsgen", "path": "/verif/engine/tsgen", "serves_properties": sorted(k for k, v in CLAIMED.items() if v[0] in ("tsgen", "symgo+tsgen")),
   "kind_free_text": "SSA subset -> pc-indexed transition relation; bounded model checking with the schedule as a symbolic vector"},
 ],
 "checks": checks,
 "not_applicable": na,
 "notes": "All checks rebuild SSA from /repo's working tree on every run. INCONCLUSIVE lines (unsupported construct, truncated bound, solver unknown, non-reproducing model) exit 0 and are listed under coverage.undischarged in the evidence.",
}
json.dump(m, open(os.path.join(ROOT, 'MANIFEST.json'), 'w'), indent=1)
print("claimed:", [c["property_id"] for c in checks])
