#!/bin/bash
# runs every claimed quick check sequentially; prints id, exit code, seconds
cd /verif
for id in $(python3 -c "import json;print(' '.join(c['property_id'] for c in json.load(open('MANIFEST.json'))['checks']))"); do
  s=$(date +%s)
  ./bin/vcheck $id --tier ${1:-quick} > /tmp/vcq_$id.log 2>&1
  rc=$?
  e=$(date +%s)
  echo "$id exit=$rc $((e-s))s $(grep -c '^VIOLATION' /tmp/vcq_$id.log) violations $(grep -c '^KNOWN-FINDING' /tmp/vcq_$id.log) known $(grep -c INCONCLUSIVE /tmp/vcq_$id.log) inconclusive"
done
