#!/bin/bash
# Runs the stable baseline tests (BASELINE.json stable_pass) of /repo (or $1) with the guard off.
REPO=${1:-/repo}
python3 - "$REPO" <<'PY'
import json,subprocess,sys,collections,re
repo=sys.argv[1]
b=json.load(open('/root/.vp/BASELINE.json'))
by=collections.defaultdict(set)
for t in b['stable_pass']:
    pkg,name=t.split('::')
    by[pkg].add(name.split('/')[0])
fail=0
for pkg,names in sorted(by.items()):
    rel='./'+pkg.replace('github.com/kercylan98/vivid','').lstrip('/')
    if rel=='./': rel='.'
    rx='^('+'|'.join(sorted(names))+')$'
    p=subprocess.run(['go','test','-vet=off','-count=1','-timeout','300s','-json','-run',rx,rel],cwd=repo,capture_output=True,text=True,env={**__import__('os').environ,'GOFLAGS':'-mod=mod'})
    res={}
    for l in p.stdout.splitlines():
        try: e=json.loads(l)
        except: continue
        if e.get('Action') in('pass','fail','skip') and e.get('Test'):
            res[pkg+'::'+e['Test']]=e['Action']
    want=[t for t in b['stable_pass'] if t.startswith(pkg+'::')]
    bad=[t for t in want if res.get(t)!='pass']
    if bad:
        # timing-sensitive tests flake when the machine is loaded: re-run only the failing top-level tests once
        rx2='^('+'|'.join(sorted({t.split('::')[1].split('/')[0] for t in bad}))+')$'
        p2=subprocess.run(['go','test','-vet=off','-count=1','-timeout','300s','-json','-run',rx2,rel],cwd=repo,capture_output=True,text=True,env={**__import__('os').environ,'GOFLAGS':'-mod=mod'})
        for l in p2.stdout.splitlines():
            try: e=json.loads(l)
            except: continue
            if e.get('Action') in('pass','fail','skip') and e.get('Test'):
                res[pkg+'::'+e['Test']]=e['Action']
        bad=[t for t in want if res.get(t)!='pass']
    print(f"{pkg}: {len(want)-len(bad)}/{len(want)} stable tests pass"+(f"  NOT PASSING: {bad[:8]}" if bad else ""))
    fail+=len(bad)
print("STABLE-RESULT", "ok" if fail==0 else f"{fail} not passing")
PY
