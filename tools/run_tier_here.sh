#!/bin/bash
# usage: run_tier_here.sh <tier> <workers> <id>...   — builds vcheck inside the current checkout (works in a vp-run snapshot)
# and runs the given checks with VERIF_ROOT=$PWD so that specs/harness/evidence are the snapshot's.
TIER=$1; W=$2; shift 2
ROOT=$(pwd)
(cd engine && PATH=/opt/veriftools/go1.26.8/bin:$PATH GOTOOLCHAIN=local GOFLAGS=-mod=mod GOPROXY=off go build -o $ROOT/bin/vcheck ./cmd/vcheck) || exit 2
for id in "$@"; do
  s=$(date +%s)
  VERIF_ROOT=$ROOT ./bin/vcheck $id --tier $TIER --workers $W > $ROOT/run_$id.log 2>&1
  rc=$?
  e=$(date +%s)
  echo "$id tier=$TIER exit=$rc $((e-s))s viol=$(grep -c '^VIOLATION' $ROOT/run_$id.log) known=$(grep -c '^KNOWN-FINDING' $ROOT/run_$id.log) inconclusive=$(grep -c '^INCONCLUSIVE' $ROOT/run_$id.log)"
  grep '^INCONCLUSIVE\|^VIOLATION\|assertion=' $ROOT/run_$id.log | cut -c1-400
  grep '^job' $ROOT/run_$id.log | awk '{print "   ",$0}' | cut -c1-200
done
