#!/bin/bash
# usage: seed_confirm.sh <srcdir> <seed-id> <property> <demo-pkg-dir> <needs-to-manifest text> [job-filter]
# Confirms a seeded change (tools/try_mutation.sh) and stores it as /verif/seeded/<seed-id>/ with meta.json.
set -u
SRC=$1; ID=$2; PROP=$3; PKG=$4; NEEDS=$5; JOB=${6:-}
D=/verif/seeded/$ID
mkdir -p $D
cp $SRC/patch.diff $D/patch.diff
cp $SRC/zz_demo_test.go $D/zz_demo_test.go.txt
[ -f $SRC/README.md ] && cp $SRC/README.md $D/README.md
OUT=$(/verif/tools/try_mutation.sh $D $PKG $PROP "$JOB" 2>&1 | grep -v "WARNING conda")
echo "$OUT" > $D/confirm.log
python3 - "$ID" "$PROP" "$PKG" "$NEEDS" "$JOB" <<'PY'
import sys,json,re,datetime
id,prop,pkg,needs,job=sys.argv[1:6]
d=f'/verif/seeded/{id}'
out=open(d+'/confirm.log').read()
m=re.search(r'RESULT stable=\[(.*?)\] demo_with=\[(.*?)\] demo_without=\[(.*?)\]',out,re.S)
c=re.search(r'CHECK rc=(\d+) (\d+) violations',out)
meta={"seed":id,"breaks_property":prop,"patch":"patch.diff","demonstration":"zz_demo_test.go.txt (copy to <repo>/%s/zz_demo_test.go)"%pkg,
 "demo_package_dir":pkg,"needs_to_manifest":needs,
 "what_i_ran":["scratch worktree of /repo HEAD under /tmp: git apply patch.diff; go build ./...; /verif/tools/run_stable.sh (the 231 stable baseline tests)",
   "demo with the patch and again with the patch reverted (go test -run Demo in the demo package, private network namespace)",
   "VERIF_REPO=<scratch worktree with patch.diff applied> VERIF_OUT=<scratch> ./bin/vcheck %s --tier quick%s"%(prop,(" --job "+job) if job else "")],
 "confirmed":{"stable_suite":m.group(1) if m else None,"demo_with_patch":m.group(2).strip() if m else None,"demo_without_patch":m.group(3).strip() if m else None},
 "check":{"exit_code":int(c.group(1)) if c else None,"violation_lines":int(c.group(2)) if c else None,
          "reported":[l for l in out.splitlines() if l.startswith('VIOLATION') or 'assertion=' in l][:4]},
 "caught": bool(c and int(c.group(1))==1 and int(c.group(2))>0),
 "date":datetime.date.today().isoformat()}
json.dump(meta,open(d+'/meta.json','w'),indent=1)
print(id,"caught" if meta["caught"] else "MISSED",meta["confirmed"])
PY
