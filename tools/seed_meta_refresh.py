#!/usr/bin/env python3
"""Updates seeded/<id>/meta.json (check result, caught flag) from seeded/SWEEP.json (written by tools/seed_sweep.sh)."""
import json, os, datetime, re
root = os.path.dirname(os.path.dirname(os.path.abspath(__file__)))
rows = json.load(open(os.path.join(root, 'seeded', 'SWEEP.json')))
for r in rows:
    mp = os.path.join(root, 'seeded', r['seed'], 'meta.json')
    if not os.path.exists(mp):
        continue
    m = json.load(open(mp))
    caught = r['status'] == 'caught'
    d = r['detail']
    rc = re.search(r'rc=(\d+)', d); v = re.search(r'viol=(\d+)', d)
    reported = [x.strip() for x in d.split(';') if 'assertion=' in x][:4]
    m['check'] = {'exit_code': int(rc.group(1)) if rc else None, 'violation_lines': int(v.group(1)) if v else None, 'reported': reported,
                  'how': 'tools/seed_sweep.sh: VERIF_REPO=<scratch worktree of /repo HEAD with patch.diff applied> VERIF_OUT=<scratch> ./bin/vcheck %s --tier quick' % r['property'],
                  'date': datetime.date.today().isoformat()}
    m['caught'] = caught
    if r['status'] == 'APPLY-FAIL':
        m['check']['note'] = 'patch no longer applies to /repo HEAD (a later fix: commit touched the same lines)'
    json.dump(m, open(mp, 'w'), indent=1)
print('refreshed', len(rows))
