#!/bin/bash
# usage: seed_restable.sh <seed-id>...   re-runs the 231 stable baseline tests ALONE (no parallel confirmations, private
# network namespace) on a scratch worktree with the seed's patch applied and records the result in meta.json.
for id in "$@"; do
  WT=/tmp/restable_$id
  git -C /repo worktree add -q --detach $WT HEAD || continue
  if git -C $WT apply /verif/seeded/$id/patch.diff; then
    R=$(unshare -n -- bash -c "ip link set lo up; /verif/tools/run_stable.sh $WT 2>&1 | grep 'STABLE-RESULT\|NOT PASSING' | tr '\n' ' '")
  else
    R="APPLY-FAIL"
  fi
  git -C /repo worktree remove --force $WT
  python3 - "$id" "$R" <<'PY'
import json,sys
id,r=sys.argv[1:3]
p=f'/verif/seeded/{id}/meta.json'
m=json.load(open(p))
c=m.setdefault('confirmed',{}) or {}
if c.get('stable_suite') and 'ok' not in (c.get('stable_suite') or '').split('STABLE-RESULT')[-1][:5]:
    c['stable_suite_first_run_in_parallel']=c.get('stable_suite')
c['stable_suite']=r.strip()
c['stable_suite_note']='re-run alone in a private network namespace (tests that bind fixed TCP ports collide when confirmations run in parallel)'
m['confirmed']=c
json.dump(m,open(p,'w'),indent=1)
print(id,r)
PY
done
