#!/bin/bash
# usage: seed_sweep.sh [tier] [parallel] [seed-glob]
# Runs every seeded change under /verif/seeded against its property's check, each in its own scratch
# worktree of /repo (VERIF_REPO) with evidence/replays redirected (VERIF_OUT), and prints caught/MISSED.
# /repo itself is never touched. Results: /verif/seeded/SWEEP.json
TIER=${1:-quick}; PAR=${2:-3}; GLOB=${3:-*}
cd /verif
run_one() {
  d=$1; TIER=$2
  id=$(basename $d)
  prop=$(python3 -c "import json;print(json.load(open('$d/meta.json'))['breaks_property'])")
  WT=/tmp/sweep_wt_$id; OUT=/tmp/sweep_out_$id
  rm -rf $WT $OUT; mkdir -p $OUT
  git -C /repo worktree add -q --detach $WT HEAD 2>/dev/null || { echo "$id worktree-fail"; return; }
  if ! git -C $WT apply /verif/$d/patch.diff 2>/dev/null; then echo "$id $prop APPLY-FAIL"; git -C /repo worktree remove --force $WT; rm -rf $OUT; return; fi
  s=$(date +%s)
  VERIF_REPO=$WT VERIF_OUT=$OUT ./bin/vcheck $prop --tier $TIER --workers 8 > $OUT/log 2>&1
  rc=$?
  e=$(date +%s)
  v=$(grep -c '^VIOLATION' $OUT/log)
  a=$(grep 'assertion=' $OUT/log | head -3 | sed 's/ native=.*//' | tr '\n' ';')
  inc=$(grep -c '^INCONCLUSIVE' $OUT/log)
  if [ $rc = 1 ] && [ $v -gt 0 ]; then st=caught; else st=MISSED; fi
  echo "$id $prop $st rc=$rc viol=$v inconclusive=$inc $((e-s))s $a"
  mkdir -p /tmp/sweep_logs; cp $OUT/log /tmp/sweep_logs/$id.log
  git -C /repo worktree remove --force $WT >/dev/null 2>&1; rm -rf $WT $OUT
}
export -f run_one
ls -d seeded/$GLOB/ | sed 's:/$::' | xargs -P $PAR -I{} bash -c "run_one {} $TIER" | sort | tee /tmp/seed_sweep.$$.out
python3 - /tmp/seed_sweep.$$.out <<'PY'
import json,re,sys,os
# a partial sweep (seed-glob) updates the rows of the seeds it ran and keeps the others
rows=[]
new=[]
for l in open(sys.argv[1]):
    p=l.split(None,3)
    if len(p)>=3: new.append({"seed":p[0],"property":p[1],"status":p[2],"detail":p[3].strip() if len(p)>3 else ""})
done={r['seed'] for r in new}
if os.path.exists('/verif/seeded/SWEEP.json'):
    rows=[r for r in json.load(open('/verif/seeded/SWEEP.json')) if r['seed'] not in done and os.path.isdir('/verif/seeded/'+r['seed'])]
rows=sorted(rows+new,key=lambda r:r['seed'])
json.dump(rows,open('/verif/seeded/SWEEP.json','w'),indent=1)
print(sum(r['status']=='caught' for r in rows),"caught of",len(rows))
PY
