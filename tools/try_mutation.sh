#!/bin/bash
# usage: try_mutation.sh <mutdir> <demo-pkg-dir> <property> [job-filter]
# Confirms a seeded change in a scratch worktree (applies, builds, stable suite passes, demo fails with / passes
# without), then runs the property's quick check against the scratch worktree with the change applied.
set -u
MD=$(realpath $1); PKG=$2; PROP=$3; JOB=${4:-}
WT=/tmp/wt_try_$$
export GOFLAGS=-mod=mod
git -C /repo worktree add -q --detach $WT HEAD || exit 2
trap 'git -C /repo worktree remove --force $WT >/dev/null 2>&1; rm -rf $WT' EXIT
cd $WT
if ! git apply $MD/patch.diff; then echo "RESULT apply=FAIL"; exit 0; fi
if ! go build ./... 2>/tmp/try_build.$$; then echo "RESULT build=FAIL $(head -3 /tmp/try_build.$$)"; exit 0; fi
STABLE=$(/verif/tools/run_stable.sh $WT 2>&1 | grep "STABLE-RESULT\|NOT PASSING" | tr "\n" " ")
if [ -f $MD/zz_demo_test.go ]; then cp $MD/zz_demo_test.go $WT/$PKG/zz_demo_test.go; else cp $MD/zz_demo_test.go.txt $WT/$PKG/zz_demo_test.go; fi
DEMO_WITH=$(unshare -n -- bash -c "ip link set lo up; cd $WT && go test -vet=off -count=1 -timeout 120s -run 'Demo|demo|ZZ' ./$PKG 2>&1 | tail -3 | tr '\n' ' '" | cut -c1-200)
git apply -R $MD/patch.diff
DEMO_WITHOUT=$(unshare -n -- bash -c "ip link set lo up; cd $WT && go test -vet=off -count=1 -timeout 120s -run 'Demo|demo|ZZ' ./$PKG 2>&1 | tail -3 | tr '\n' ' '" | cut -c1-200)
echo "RESULT stable=[$STABLE] demo_with=[$DEMO_WITH] demo_without=[$DEMO_WITHOUT]"
cd /verif
# the check runs against the scratch worktree with the change applied (VERIF_REPO), evidence/replays redirected
# (VERIF_OUT); /repo itself is not touched
rm -f $WT/$PKG/zz_demo_test.go
git -C $WT apply $MD/patch.diff
OUTD=/tmp/try_out_$$; mkdir -p $OUTD
if [ -n "$JOB" ]; then OUT=$(VERIF_REPO=$WT VERIF_OUT=$OUTD ./bin/vcheck $PROP --tier quick --job "$JOB" 2>&1); else OUT=$(VERIF_REPO=$WT VERIF_OUT=$OUTD ./bin/vcheck $PROP --tier quick 2>&1); fi
RC=$?
rm -rf $OUTD
echo "CHECK rc=$RC $(echo "$OUT" | grep -c '^VIOLATION') violations"
echo "$OUT" | grep "^VIOLATION\|assertion=" | head -4 | cut -c1-220
